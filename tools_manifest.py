#!/usr/bin/env python3
"""Regenerates MANIFEST.json from the table below (run after adding a check)."""
import json
import os

HERE = os.path.dirname(os.path.abspath(__file__))
BASELINE_OFF = ("cd /repo && env -u CURTSIES_VERIF /venv/bin/python -m pytest -ra -q "
                "-p no:cacheprovider --timeout=900 --continue-on-collection-errors")

# id -> (level, technique, text, note, design_ref)
CHECKS = {}


def add(pid, level, technique, text, note):
    CHECKS[pid] = (level, technique, text, note)


exec(open(os.path.join(HERE, "manifest_table.py")).read())

props = [json.loads(l) for l in open(os.path.join(HERE, "properties.jsonl"))]
checks = []
na = []
for p in props:
    pid = p["id"]
    if pid in CHECKS and os.path.exists(os.path.join(HERE, "rv", "props", pid.lower() + ".py")):
        level, technique, text, note = CHECKS[pid]
        checks.append({
            "property_id": pid,
            "quick_cmd": "./check %s --tier quick" % pid,
            "thorough_cmd": "./check %s --tier thorough" % pid,
            "evidence_file": "/verif/evidence/%s.json" % pid,
            "replay_cmd_template": "./check %s --replay {path}" % pid,
            "engine": "rv",
            "level_claimed": {"category": level, "text": text,
                              "design_ref": "DESIGN.md section 3, %s" % pid},
            "level_note": note,
            "technique": technique,
        })
    else:
        na.append({"property_id": pid,
                   "reason": "check not built yet in this round (runtime monitor designed in DESIGN.md section 3)"})

manifest = {
    "version": 1,
    "setup_cmd": "/venv/bin/pip install --quiet --no-index --find-links /opt/veriftools/wheels "
                 "--target /verif/.deps icontract",
    "hooks": {
        "guard": "CURTSIES_VERIF",
        "enable": "no source hooks: monitors are attached from outside at run time "
                  "(wrappers, icontract invariants, sys.monitoring, scripted streams); "
                  "./check sets CURTSIES_VERIF=1 itself",
        "baseline_off_cmd": BASELINE_OFF,
        "source_commits": [],
        "add_only": True,
    },
    "engines": [{
        "name": "rv", "path": "/verif/rv",
        "serves_properties": [c["property_id"] for c in checks],
        "kind_free_text": "runtime monitoring: the real curtsies code from /repo's working tree "
                          "is executed under enumerated, random, hostile and fault-injected "
                          "workloads; oracles are reference models (SGR interpreter, xterm-"
                          "semantics terminal, cell grids, history checkers) stepped alongside",
    }],
    "checks": checks,
    "not_applicable": na,
    "notes": "All checks: ./check <id> --tier quick|thorough [--seed N] (VERIF_SEED / VERIF_TIER "
             "honoured). Exit 0 held, 1 VIOLATION, 2 INCONCLUSIVE, 3 harness error. "
             "known_findings.json lists recorded findings and fixed defects.",
}
if not na:
    manifest["not_applicable"] = []
with open(os.path.join(HERE, "MANIFEST.json"), "w") as f:
    json.dump(manifest, f, indent=1)
print("MANIFEST.json: %d checks, %d not claimed" % (len(checks), len(na)))
