#!/usr/bin/env python3
"""Developer tool: the harness's own sensitivity mutants (DESIGN.md section 5.2).

Each entry is a textual replacement in one file of a scratch worktree of /repo HEAD (outside
/repo and /verif, removed afterwards).  For every mutant: the 77 baseline tests must still
pass (otherwise the mutant is 'not silent' and skipped) and ./check <property> --tier quick
must report a VIOLATION.  Usage: tools_sensitivity.py [name-substring ...]
"""
import os
import re
import subprocess
import sys
import tempfile

HERE = os.path.dirname(os.path.abspath(__file__))
PY = "/venv/bin/python"
ENV = dict(os.environ, TERM="xterm-256color", PYTHONDONTWRITEBYTECODE="1")
FS = "curtsies/formatstring.py"
WIN = "curtsies/window.py"
INP = "curtsies/input.py"
EV = "curtsies/events.py"
ESC = "curtsies/escseqparse.py"

M = []


def mut(name, prop, path, old, new, count=1):
    M.append((name, prop, path, old, new, count))


mut("c01-bg-closed-with-fg-reset", "C01", FS, 'seq(v) + s + seq(RESET_BG)', 'seq(v) + s + seq(RESET_FG)')
mut("c01-fg-not-closed", "C01", FS, '"{}{}{}".format(seq(v), s, seq(RESET_FG))', '"{}{}".format(seq(v), s)')
mut("c02-always-clear-eol", "C02", WIN,
    "            self.write(for_stdout(line))\n            if len(line) < width:\n                self.write(self.t.clear_eol)\n\n        # rows onscreen",
    "            self.write(for_stdout(line))\n            self.write(self.t.clear_eol)\n\n        # rows onscreen")
mut("c02-no-cache-reset-on-resize", "C02", WIN,
    "        if height != self._last_rendered_height or width != self._last_rendered_width:\n            self.on_terminal_size_change(height, width)\n\n        current_lines_by_row: Dict[int, Optional[FmtStr]] = {}\n\n        # rows which we have content for and don't require scrolling\n        # (only",
    "        current_lines_by_row: Dict[int, Optional[FmtStr]] = {}\n\n        # rows which we have content for and don't require scrolling\n        # (only")
mut("c02-cache-compares-text-only", "C02", WIN,
    "            current_lines_by_row[row] = line\n            if line == self._last_lines_by_row.get(row, None):\n                continue\n            self.write(self.t.move(row, 0))\n            self.write(for_stdout(line))\n            if len(line) < width:\n                self.write(self.t.clear_eol)\n\n        # rows onscreen",
    "            current_lines_by_row[row] = line\n            last = self._last_lines_by_row.get(row, None)\n            if last is not None and getattr(line, 's', line) == getattr(last, 's', last):\n                continue\n            self.write(self.t.move(row, 0))\n            self.write(for_stdout(line))\n            if len(line) < width:\n                self.write(self.t.clear_eol)\n\n        # rows onscreen")
mut("c02-clip-off-by-one", "C02", WIN, "            if len(line) > width:\n                line = line[:width]",
    "            if len(line) > width:\n                line = line[: width - 1]")
mut("c03-utf8-pending-off-by-one", "C03", EV, "(o & 0b11110000 == 0b11100000 and len(seq) < 3)",
    "(o & 0b11110000 == 0b11100000 and len(seq) < 2)")
mut("c03-full-flag-wrong", "C03", INP, "                    self._nonblocking_read(events.MAX_KEYPRESS_SIZE)\n                    if not self.unprocessed_bytes:",
    "                    self._nonblocking_read(events.MAX_KEYPRESS_SIZE)\n                    if len(self.unprocessed_bytes) <= 1:")
mut("c03-prefixes-miss-last", "C03", EV, "            for i in range(1, len(k)):\n                KEYMAP_PREFIXES.add(k[:i])",
    "            for i in range(1, len(k) - 1):\n                KEYMAP_PREFIXES.add(k[:i])")
mut("c04-region-pad-boundary", "C04", FS, "        if len(self) > endindex:\n            fs = fs +", "        if len(self) >= endindex:\n            fs = fs +")
mut("c04-leftpad-short", "C04", FS, 'fs = " " * (startindex - len(self)) + fs', 'fs = " " * max(0, startindex - len(self) - 1) + fs')
mut("c05-reset-all-keeps-colours", "C05", ESC, 'dict({k: None for k in STYLES}, **{"fg": None, "bg": None})', 'dict({k: None for k in STYLES})')
mut("c06-radd-order", "C06", FS, "return FmtStr(*(x for x in ([Chunk(other)] + self.chunks)))", "return FmtStr(*(x for x in (self.chunks + [Chunk(other)])))")
mut("c06-getitem-skips-boundary-run", "C06", FS, "            if index.start < counter + len(chunk) and index.stop > counter:\n                start = max(0, index.start - counter)\n                end = min(index.stop - counter, len(chunk))\n                if end - start == len(chunk):",
    "            if index.start < counter + len(chunk) and index.stop > counter + 0 and len(chunk) > 0 and index.stop - counter != 1 or (index.stop - counter == 1 and index.start <= counter and counter == 0):\n                start = max(0, index.start - counter)\n                end = min(index.stop - counter, len(chunk))\n                if end - start == len(chunk):")
mut("c07-every-scroll-counted-offscreen", "C07", WIN, "            if self.top_usable_row > 0:\n                self.top_usable_row -= 1\n            else:\n                offscreen_scrolls += 1",
    "            if self.top_usable_row > 0:\n                self.top_usable_row -= 1\n            offscreen_scrolls += 1")
mut("c07-cache-not-shifted-on-scroll", "C07", WIN, "            current_lines_by_row = {k - 1: v for k, v in current_lines_by_row.items()}", "            pass")
mut("c08-lifo-events", "C08", INP, "        if self.queued_events:\n            return self.queued_events.pop(0)", "        if self.queued_events:\n            return self.queued_events.pop()")
mut("c08-paste-loop-no-refill", "C08", INP, "                if len(self.unprocessed_bytes) < events.MAX_KEYPRESS_SIZE:\n                    self._nonblocking_read()  # may need", "                if False:\n                    self._nonblocking_read()  # may need")
mut("c08-scheduled-early", "C08", INP, "            when, _ = self.queued_scheduled_events[0]\n            if when < time.time():", "            when, _ = self.queued_scheduled_events[0]\n            if when < time.time() + 0.02:")
mut("c08-interrupting-event-lost-on-wake", "C08", INP, "                    if self.queued_interrupting_events:\n                        return False, self.queued_interrupting_events.pop(0)", "                    if len(self.queued_interrupting_events) == 1:\n                        return False, self.queued_interrupting_events.pop(0)\n                    elif self.queued_interrupting_events:\n                        del self.queued_interrupting_events[1:]\n                        return False, self.queued_interrupting_events.pop(0)")
mut("c09-tail-boundary", "C09", FS, "            elif bfs_start < end < bfs_end:\n                divide = start - bfs_start", "            elif bfs_start <= end < bfs_end:\n                divide = start - bfs_start")
mut("c09-append-uses-len-minus", "C09", FS, "        return self.splice(string, len(self.s))", "        return self.splice(string, max(0, len(self.s) - 0), len(self.s) + (1 if not self.s else 0))")
mut("c10-offset-plus-one", "C10", FS, "        width = wcswidth(self.s, n)\n", "        width = wcswidth(self.s, n + 1 if n else n)\n")
mut("c10-cut-char-loses-format", "C10", FS, "                    parts.append(Chunk(s_part, chunk.atts))\n            counter += chunk.width", "                    parts.append(Chunk(s_part, chunk.atts if s_part.strip() else None))\n            counter += chunk.width")
mut("c11-padding-unformatted", "C11", FS, "                            s[start_offset : self.internal_offset] + replacement_char,\n                            atts=self.chunk.atts,",
    "                            s[start_offset : self.internal_offset] + replacement_char,\n                            atts=self.chunk.atts if self.internal_offset > start_offset else None,")
mut("c12-cbreak-restore-skipped-on-exception", "C12", "curtsies/termhelpers.py",
    "        termios.tcsetattr(self.stream, termios.TCSANOW, self.original_stty)\n", "        if type is None:\n            termios.tcsetattr(self.stream, termios.TCSANOW, self.original_stty)\n", count=-1)
mut("c12-sigint-handler-not-restored-on-exception", "C12", INP,
    "        if (\n            self.sigint_event\n            and is_main_thread()\n            and self.orig_sigint_handler is not None\n        ):",
    "        if (\n            self.sigint_event\n            and is_main_thread()\n            and self.orig_sigint_handler is not None\n            and type is None\n        ):")
mut("c13-append-in-place", "C13", FS, "        if isinstance(other, FmtStr):\n            return FmtStr(*(self.chunks + other.chunks))\n        elif isinstance(other, (bytes, str)):\n            return FmtStr(*(self.chunks + [Chunk(other)]))",
    "        if isinstance(other, FmtStr):\n            return FmtStr(*(self.chunks + other.chunks))\n        elif isinstance(other, (bytes, str)):\n            result = FmtStr()\n            result.chunks = self.chunks if len(self.chunks) > 2 else list(self.chunks)\n            result.chunks.append(Chunk(other))\n            return result")
mut("c14-old-attribute-wins", "C14", FS, "return FrozenAttributes(chain(self.items(), dictlike.items()))", "return FrozenAttributes(chain(dictlike.items(), self.items()))")
mut("c15-list-results-lose-formatting", "C15", FS, "                    FmtStr(Chunk(x, shared)) if isinstance(x, str) else x", "                    FmtStr(Chunk(x)) if isinstance(x, str) else x")
mut("c16-fit-test-off-by-one", "C16", FS, "        if len(lines[-1]) + len(word) < columns:", "        if len(lines[-1]) + len(word) <= columns:")
mut("c17-fallback-keeps-escapes", "C17", FS, "                return FmtStr(Chunk(remove_ansi(s)))", "                return FmtStr(Chunk(s))")
mut("c18-extra-non-greedy", "C18", WIN, 'r"(?P<extra>.*)"', 'r"(?P<extra>.*?)"')
mut("c18-nested-query-forgotten", "C18", WIN, "            if not self.another_sigwinch:\n                return cursor_dy", "            return cursor_dy")
mut("c19-eq-on-text", "C19", FS, "            return str(self) == str(other)\n        return NotImplemented", "            return self.s == (other.s if isinstance(other, FmtStr) else other)\n        return NotImplemented")
mut("c20-curses-mode-cuts-differently", "C20", EV, "    if full and key_known:\n        return _key_name(seq, encoding, keynames)", "    if full and key_known and not (keynames == Keynames.CURSES and seq in KEYMAP_PREFIXES and len(seq) > 2):\n        return _key_name(seq, encoding, keynames)")
mut("c20-config-meta-uppercased", "C20", "curtsies/configfile_keynames.py", '                "<Esc+%s>" % ESC_NAMES.get(key[2:], key[2:]),', '                "<Esc+%s>" % ESC_NAMES.get(key[2:], key[2:]).upper(),')


def sh(cmd, cwd=None, env=None, timeout=1800):
    r = subprocess.run(cmd, cwd=cwd, env=env or ENV, stdout=subprocess.PIPE, stderr=subprocess.STDOUT,
                       text=True, timeout=timeout)
    return r.returncode, r.stdout


def main():
    sel = sys.argv[1:]
    results = []
    for name, prop, path, old, new, count in M:
        if sel and not any(s in name for s in sel):
            continue
        d = tempfile.mkdtemp(prefix="sens-", dir="/tmp")
        os.rmdir(d)
        rc, out = sh(["git", "-C", "/repo", "worktree", "add", "-q", "--detach", d, "HEAD"])
        assert rc == 0, out
        try:
            fn = os.path.join(d, path)
            src = open(fn).read()
            if old not in src:
                results.append((name, prop, "PATTERN-NOT-FOUND", ""))
                print("%-45s %s PATTERN-NOT-FOUND" % (name, prop), flush=True)
                continue
            src = src.replace(old, new) if count == -1 else src.replace(old, new, count)
            open(fn, "w").write(src)
            rc, out = sh([PY, "-m", "pytest", "-q", "-p", "no:cacheprovider", "-x"], cwd=d)
            m = re.search(r"(\d+) passed", out)
            if rc != 0 or not m or int(m.group(1)) != 77:
                results.append((name, prop, "not-silent(baseline tests fail)", ""))
                print("%-45s %s baseline tests fail -> not a silent mutant" % (name, prop), flush=True)
                continue
            rc, out = sh([os.path.join(HERE, "check"), prop, "--tier", "quick"], cwd=HERE, env=dict(ENV, VERIF_REPO=d))
            mechs = re.findall(r"mechanism=(\S+) count=(\d+)", out)
            verdict = {0: "MISSED", 1: "caught", 2: "inconclusive", 3: "harness-error"}.get(rc, str(rc))
            results.append((name, prop, verdict, mechs))
            print("%-45s %s %-12s %s" % (name, prop, verdict, mechs[:3]), flush=True)
            if rc in (2, 3):
                print(out[-600:])
        finally:
            sh(["git", "-C", "/repo", "worktree", "remove", "--force", d])
    caught = sum(1 for r in results if r[2] == "caught")
    silent = sum(1 for r in results if r[2] in ("caught", "MISSED", "inconclusive", "harness-error"))
    print("caught %d of %d silent mutants (%d listed)" % (caught, silent, len(results)))


if __name__ == "__main__":
    main()
