#!/usr/bin/env python3
"""Developer tool (never run by a check): regenerates known_findings.json from this table.

status 'known'  : a genuine defect recorded rather than repaired; the check prints
                  KNOWN-FINDING for the mechanism and exits 0; other mechanisms still fail.
status 'fixed'  : repaired by the named 'fix:' commit in /repo; suppresses nothing - the
                  witnesses run on every check and a recurrence is a VIOLATION.
Entries are keyed by mechanism (decided by each property's classifier from the shape of the
failing case), never by input hashes or random values.
"""
import json
import os


def B(h):
    return {"__bytes__": h}


F = []


def fixed(prop, mech, commit, what, witnesses):
    F.append({"property": prop, "mechanism": mech, "status": "fixed", "commit": commit, "what": what,
              "line": "fixed: property=%s %s %s" % (prop, commit, what), "witnesses": witnesses})


def known(prop, mech, what, witnesses, why_not_fixed):
    F.append({"property": prop, "mechanism": mech, "status": "known", "what": what,
              "why_not_fixed": why_not_fixed, "witnesses": witnesses})


RED = {"fg": 31}
BLUE = {"bg": 44}

fixed("C06", "C06:negative-bound", "a0cbb68",
      "negative slice bounds / indexes: f[-1] raised IndexError, f[-1:] was the whole string, f[-3:] and f[:-1] were empty",
      [{"op": "slice", "spec": [["abc", RED], ["def", BLUE]], "start": -3, "stop": None},
       {"op": "slice", "spec": [["abc", RED], ["def", BLUE]], "start": -1, "stop": None},
       {"op": "slice", "spec": [["abc", RED], ["def", BLUE]], "start": None, "stop": -1},
       {"op": "index", "spec": [["abc", RED], ["def", BLUE]], "i": -1},
       {"op": "index", "spec": [["abc", RED], ["def", BLUE]], "i": -6}])
fixed("C09", "C09:empty-replacement", "ffcfc80",
      "splice('', s, e) returned self instead of deleting s:e",
      [{"spec": [["abc", RED]], "new": "", "start": 0, "end": 2},
       {"spec": [["ab", RED], ["cd", BLUE]], "new": [], "start": 1, "end": 3}])
fixed("C09", "C09:insert-at-run-boundary", "ffcfc80",
      "pure insertion at the start of an interior run dropped that run",
      [{"spec": [["a", RED], ["ba", BLUE]], "new": "z", "start": 1, "end": None}])
fixed("C09", "C09:insert-at-0-after-empty-run", "ffcfc80",
      "insertion at 0 with a leading empty run was emitted once per run",
      [{"spec": [["", {}], ["abc", RED]], "new": "Z", "start": 0, "end": None}])
fixed("C04", "C04:empty-row-keeps-old-content", "ffcfc80",
      "assigning an empty row to a region left the old content (same root cause as splice('')",
      [{"shape": [1, 4], "steps": [
          {"form": "slice2d", "r0": 0, "r1": 1, "c0": 0, "c1": 3, "block": ["abc"]},
          {"form": "slice2d", "r0": 0, "r1": 1, "c0": 0, "c1": 3, "block": [""]}]}])
fixed("C05", "C05:newline-in-text", "9935c72",
      "from_str(str(f)) lost text after a newline / left escapes in the text (regexes without DOTALL)",
      [{"spec": [["a\nb", RED]]}, {"string": "\x1b[31ma\nb\x1b[39m\nc\x1b[1md\x1b[0m"}])
fixed("C17", "C17:newline", "9935c72",
      "fmtstr(s) dropped ordinary text after a newline when s also holds escape sequences",
      [{"pieces": [["e", "\x1b[31m"], ["t", "a\nb"], ["e", "\x1b[0m"], ["t", "\nc"]], "exact": True}])
fixed("C17", "C17:text-lost", "9935c72",
      "same defect seen through mixed escape sequences",
      [{"pieces": [["e", "\x1b[1 q"], ["t", "a\nHb"], ["e", "\x1b[1 q"], ["t", "1; "]], "exact": False}])
fixed("C10", "C10:zero-width-only-run", "db2c707",
      "Chunk.width raised ValueError for a run consisting only of combining characters",
      [{"op": "width", "spec": [["a", RED], ["́", BLUE]]},
       {"op": "slice", "spec": [["a", RED], ["́", BLUE], ["b", {}]], "a": 0, "b": 2}])
fixed("C10", "C10:empty-range-inside-wide-char", "690efcd",
      "width_aware_slice(slice(1, 1)) inside a double-width character raised AssertionError",
      [{"op": "slice", "spec": [["Ｅ", RED]], "a": 1, "b": 1}])
fixed("C10", "C10:slice", "327dca7",
      "width_aware_slice dropped a combining character that opens a later run although its base character is inside the slice",
      [{"op": "slice", "spec": [["a", RED], ["́一", BLUE]], "a": 0, "b": 2}])
fixed("C11", "C11:no-runs", "36fc2bc",
      "width_aware_splitlines on a FmtStr without runs raised IndexError",
      [{"spec": [], "columns": 3}])
fixed("C11", "C11:zero-width-only-run", "db2c707",
      "a produced line's .width raised for a run of only combining characters",
      [{"spec": [["ab", RED], ["́", BLUE]], "columns": 2}])
fixed("C16", "C16:no-words", "cc91dcf",
      "linesplit('') / linesplit('   ') raised IndexError",
      [{"text": "", "pattern": "str", "columns": 3}, {"text": " \t ", "pattern": "uniform", "columns": 3}])
fixed("C15", "C15:shared-formatting-lost-after-leading-empty-run", "6335c88",
      "delegated str methods lost the formatting shared by all characters when the first run is empty",
      [{"spec": [["", {}], ["a", {"underline": True}]], "method": "upper", "args": [], "kwargs": {}}])
fixed("C15", "C15:splitlines-keepends", "625c2f6",
      "splitlines(keepends=True) appended an unformatted newline to every piece and an extra element",
      [{"spec": [["a\nb", RED]], "method": "splitlines", "args": [True], "kwargs": {}},
       {"spec": [["a\n", RED]], "method": "splitlines", "args": [True], "kwargs": {}}])
fixed("C14", "C14:case-variant-name", "0282d40",
      "fmtstr('x', 'RED') / 'on_BLUE' raised KeyError (neither a result nor ValueError)",
      [{"kind": "casevariant", "args": ["RED"], "kwargs": {}, "atts": {"fg": 31}},
       {"kind": "casevariant", "args": ["on_BLUE"], "kwargs": {}, "atts": {"bg": 44}}])
fixed("C13", "C13:frozenattributes-incomplete", "2502efa",
      "a run's attribute dict allowed pop/popitem/clear/setdefault/del/|=",
      [{"spec": [["ab", {"fg": 31, "bold": True}]], "edit": k}
       for k in ("atts_pop", "atts_popitem", "atts_clear", "atts_setdefault", "atts_delitem", "atts_ior")])

fixed("C20", "C20:ctrl-i-is-tab", "0a4138b",
      "config name C-i mapped to <Ctrl-i>, a name the decoder never produces (0x09 is <TAB>)",
      [{"kind": "config", "name": "C-i"}])

fixed("C02", "C02:array-taller-than-terminal", "4b0533d",
      "FullscreenWindow wrote every row beyond the terminal height onto the last line",
      [{"rows": 2, "cols": 3, "hide_cursor": True, "steps": [
          {"op": "render", "array": ["a", "b", "c", "d"], "as": "list", "cursor": [0, 0]}]}])
fixed("C02", "C02:row-longer-than-terminal", "4b0533d",
      "FullscreenWindow let rows longer than the width wrap (and scroll on the last line)",
      [{"rows": 2, "cols": 3, "hide_cursor": True, "steps": [
          {"op": "render", "array": ["abcde", "fghij"], "as": "list", "cursor": [1, 1]}]}])

fixed("C12", "C12:wakeup-fd-not-restored", "5284fd4",
      "Input.__exit__ set the signal wake-up fd to -1 instead of restoring the one installed before",
      [{"kind": "input", "cfg": {"sigint_event": False}, "app": True, "tty": "cooked", "body": ["send0"], "crash": None}])
fixed("C12", "C12:interrupted-inside-nonblocking-restore", "0fb373e",
      "a KeyboardInterrupt on entry to Nonblocking.__exit__ during a request left the stream O_NONBLOCK after the Input context",
      [{"kind": "input", "cfg": {"sigint_event": True}, "tty": "cooked",
        "body": ["send0", "ev", "send0", "send0", "unget", "send0", "sched", "send_s"], "crash": ["line", k]}
       for k in range(40, 70)])
fixed("C12", "C12:cursor-left-hidden", "4939ad5",
      "with hide_cursor=False an exception in the middle of a render left the cursor hidden after the window context",
      [{"kind": "full", "cfg": {"hide_cursor": False}, "body": [["render", 0, [1, 1]], ["render", 1, [0, 0]]],
        "tty": "cooked", "crash": ["line", k]} for k in (20, 54, 80)])

fixed("C08", "C08:equal-scheduled-times", "bb8b101",
      "two scheduled events with equal times made every later request raise TypeError (sort of (when, event) tuples)",
      [{"kind": "seq", "paste_threshold": None, "sigint_event": False,
        "script": [["sched", -1.0], ["sched_equal"], ["req", 0], ["req", 0], ["req", 0]]}])
fixed("C08", "C08:non-paste-path-does-not-refill", "d1ecc9e",
      "outside a paste a keypress straddling the 1024-byte read was decoded in two halves (ValueError / ESC + loose characters)",
      [{"kind": "names", "mode": "curtsies", "paste_threshold": None,
        "bursts": [B((b"a" * 1023 + "一".encode() + b"bcd").hex())]},
       {"kind": "names", "mode": "curtsies", "paste_threshold": 5000,
        "bursts": [B((b"a" * 1023 + b"\x1b[4h" + b"bcd").hex())]},
       {"kind": "seq", "paste_threshold": None, "sigint_event": False,
        "script": [["write", B((b"a" * 1022 + "😀".encode() + b"xyz").hex())]] + [["req", 0]] * 5}])

fixed("C08", "C08:none-early", "33b8f61",
      "after two spurious wake-ups inside one request (trigger pipe written after its event was handed out) "
      "send(timeout) returned None before the timeout - schedule dependent, found by the concurrent histories",
      [json.load(open(os.path.join(os.path.dirname(os.path.abspath(__file__)), "known_witnesses", "C08-none-early.json")))])

fixed("C06", "C06:iteration", "a7e388d",
      "f[len(f)] returned an empty FmtStr instead of raising IndexError, so iterating a FmtStr yielded one extra empty item",
      [{"op": "iterate", "spec": [["ab", RED], ["c", BLUE]]}, {"op": "iterate", "spec": []}])
fixed("C15", "C15:join", "a7e388d",
      "sep.join(a FmtStr) ended with a trailing separator (same root cause: the FmtStr iterated to one extra empty item)",
      [{"method": "join", "sep": [[",", RED]], "items": [[["ab", BLUE], ["c", {}]]], "iterable": "fmtstr"}])

fixed("C08", "C08:falsy-event-dropped", "dada86b",
      "an event that is falsy (an Event subclass with __len__ == 0) handed to a blocked request by a threadsafe trigger "
      "was discarded by 'if event:' and the request returned None early",
      [json.load(open(os.path.join(os.path.dirname(os.path.abspath(__file__)), "known_witnesses", "C08-falsy-event.json")))])

fixed("C08", "C08:paste-behind-buffered-keys", "e96e5f3",
      "a burst larger than the paste threshold that arrived while 1-6 already-read keypresses were buffered came back "
      "as single keypresses (the up-front refill introduced by d1ecc9e swallowed it)",
      [{"kind": "buffered", "paste_threshold": 8, "how": "unget", "pre": B(b"QW".hex()), "burst": B((b"hello world, " * 5).hex())},
       {"kind": "buffered", "paste_threshold": 8, "how": "typed", "pre": B(b"abc".hex()), "burst": B((b"hello world, " * 5).hex())}])
fixed("C08", "C08:keypress-split-across-arrivals", "eb7b570",
      "a multi-byte character / escape sequence whose bytes arrive in two writes with a request in between: "
      "ValueError, the bytes (and the paste being built) dropped",
      [{"kind": "split", "paste_threshold": 1, "pre": B(b"g".hex() + "e282ac"), "unit": B("f0908d88"), "cuts": [2],
        "post": B(""), "between": [0.002, 0], "during_blocked": False},
       {"kind": "split", "paste_threshold": None, "pre": B(""), "unit": B(b"\x1b[1;5C".hex()), "cuts": [3],
        "post": B(b"z".hex()), "between": [0], "during_blocked": True}])

fixed("C18", "C18:movement-not-conserved-after-failed-query", "ca7a4a8",
      "after one get_cursor_vertical_diff that raised (typed-ahead input, no callback) every later call returned 0 "
      "without querying: the re-entrancy flag was never cleared",
      [{"kind": "history", "rows": 6, "cols": 5, "pre": 1, "steps": [
          {"h": 0.3, "tall": False, "len": 0.5, "cursor": 0.0, "d": 0.9, "nested": False, "d2": 0.5,
           "extra_query": False, "d3": 0.5, "failed_first": True},
          {"h": 0.3, "tall": False, "len": 0.5, "cursor": 0.0, "d": 0.1, "nested": False, "d2": 0.5,
           "extra_query": False, "d3": 0.5, "failed_first": False}]}])

fixed("C18", "C18:extra-bytes-undecodable-in-stream-encoding", "ea06291",
      "typed-ahead input holding a byte that is invalid in the stream's encoding (a lone surrogate from "
      "errors='surrogateescape') raised UnicodeEncodeError instead of reaching extra_bytes_callback as that byte",
      [{"kind": "parse", "extra": "a\udce1", "csi": "\x1b[", "row": 3, "col": 7, "trailing": "", "fail_at": [],
        "callback": True, "encoding": "utf-8", "errors": "surrogateescape"}])

fixed("C14", "C14:unusual-value-accepted-with-wrong-effect", "3e6bbf0",
      "a style given a falsy value that is not False (bold=0, bold=None) was displayed as ON while repr/shared_atts said off",
      [{"kind": "lenient", "args": [], "kwargs": {"bold": 0}, "meaning": {"bold": False}},
       {"kind": "lenient", "args": [], "kwargs": {"bold": None}, "meaning": {"bold": False}}])
fixed("C14", "C14:invalid-accepted", "6d4819a",
      "a style named positionally (or through style=) and also keyed False was silently resolved to True",
      [{"kind": "invalid", "args": ["bold"], "kwargs": {"bold": False}},
       {"kind": "invalid", "args": [], "kwargs": {"style": "underline", "underline": False}}])
fixed("C14", "C14:invalid-other-exception", "6d4819a",
      "an unhashable colour value raised TypeError, a float one was accepted and rendered as ESC[31.0m",
      [{"kind": "invalid", "args": [], "kwargs": {"fg": [31]}},
       {"kind": "lenient", "args": [], "kwargs": {"fg": 31.0}, "meaning": {"fg": "red"}}])

fixed("C13", "C13:run-attribute-assignable", "e1378d4",
      "a run's memoised terminal string (Chunk.color_str, a cached_property) accepted assignment: every value sharing "
      "the run changed its display in place",
      [{"spec": [["ab", {"fg": 31, "bold": True}]], "edit": "run_color_str"}])

fixed("C15", "C15:encode", "72f70f7",
      "f.encode(...) raised ValueError: the delegation wrapped the bytes result in fmtstr()",
      [{"spec": [["ab", RED]], "method": "encode", "args": [], "kwargs": {}},
       {"spec": [["aß", RED], ["b", BLUE]], "method": "encode", "args": ["ascii", "replace"], "kwargs": {}}])
fixed("C15", "C15:splitlines-other-line-boundaries", "e3cbf85",
      "splitlines only split at \\n: \\r\\n, \\r, \\x0b, \\x0c, \\x1c-\\x1e, \\x85, \\u2028, \\u2029 gave other pieces than str.splitlines",
      [{"spec": [["a\r\nb", RED], ["c\rd", BLUE]], "method": "splitlines", "args": [], "kwargs": {}},
       {"spec": [["a\x0cb\u2028", RED]], "method": "splitlines", "args": [True], "kwargs": {}}])

fixed("C14", "C14:copy_with_new_str-takes-formatting-of-empty-run", "6f5e65e",
      "copy_with_new_str gave the new text the attributes of a zero-length run that no character had",
      [{"kind": "newstr", "fmt": [["abc", {}]], "new": "hello", "onto_empty": False, "stray_empty_run": [0, {"fg": 31}]},
       {"kind": "newstr", "fmt": [["ab", {"bold": True}], ["c", {"bold": True}]], "new": "x", "onto_empty": False,
        "stray_empty_run": [1, {"bg": 44}]}])

fixed("C14", "C14:copy_with_new_atts-unvalidated", "ea415a2",
      "copy_with_new_atts accepted unknown attribute names and bad colour values (KeyError at display time, ESC[redm for fg='red')",
      [{"kind": "invalid", "args": [], "kwargs": {"colour": "red"}, "via": "copy_with_new_atts"},
       {"kind": "invalid", "args": [], "kwargs": {"fg": 99}, "via": "copy_with_new_atts"},
       {"kind": "lenient", "args": [], "kwargs": {"fg": "red"}, "meaning": {"fg": "red"}, "via": "copy_with_new_atts"}])

fixed("C17", "C17:empty-parameter", "fffbc52",
      "a numeric CSI sequence with an empty parameter (ESC[;5H, ESC[;1m, ESC[1;;31m) left its parameters and final byte in the text",
      [{"pieces": [["e", "\x1b[;5H"], ["t", "foo"]], "exact": True},
       {"pieces": [["t", "a"], ["e", "\x1b[1;;31m"], ["t", "red"], ["e", "\x1b[m"]], "exact": True}])
fixed("C17", "C17:non-ascii-digit-swallowed", "7f8ea03",
      "a truncated ESC[ followed by non-ASCII decimal digits swallowed them and the following text as a CSI sequence",
      [{"pieces": [["t", "x"], ["e", "\x1b["], ["t", "٣ zzz"]], "exact": False},
       {"pieces": [["e", "\x1b["], ["t", "３１mfoo"]], "exact": False}])
fixed("C17", "C17:8bit-csi-kept", "e2d1c23",
      "a string whose escape sequences all use the 8-bit CSI (no ESC[ anywhere) was returned verbatim, control characters included",
      [{"pieces": [["e", "\x9b31m"], ["t", "foo"], ["e", "\x9b0m"]], "exact": True},
       {"pieces": [["t", "a"], ["e", "\x9b2J"], ["t", "b"]], "exact": True}])

fixed("C04", "C04:negative-row-read", "2d9907c",
      "a[-k] raised IndexError for every array (sign error when resolving a negative row index)",
      [{"shape": [2, 3], "steps": [{"form": "slice2d", "r0": 0, "r1": 2, "c0": 0, "c1": 3, "block": ["abc", "def"]}]}])
fixed("C04", "C04:open-or-negative-row-bounds", "d61966a",
      "a[:, c0:c1] = block / a[r0:] = block / a[-1, c] = x resolved the rows against sys.maxsize and tried to grow the "
      "array to ~9e18 rows (ran until memory was exhausted)",
      [{"shape": [3, 4], "steps": [{"form": "slice2d", "r0": 0, "r1": 3, "c0": 0, "c1": 2, "block": ["ab", "cd", "ef"],
                                    "rows_as": "open_both", "witness": True}]},
       {"shape": [3, 4], "steps": [{"form": "int2d", "r0": 2, "r1": 3, "c0": 1, "c1": 2, "block": ["X"],
                                    "rows_as": "neg", "witness": True}]},
       {"shape": [2, 2], "steps": [{"form": "rowslice", "r0": 1, "r1": 2, "c0": 0, "c1": 2, "block": ["zz"],
                                    "rows_as": "open_stop", "witness": True}]}])

fixed("C07", "C07:render-after-re-entry", "6ad5d38",
      "a CursorAwareWindow left and entered again kept the row cache of its first context: the first render after "
      "re-entry did not draw rows equal to what was drawn (and erased) before",
      [{"rows": 5, "cols": 7, "nhist": 2, "park": None, "keep": False, "hide": True, "reenter_before": 1, "steps": [
          {"array": ["hello", "world"], "cursor": [0, 0]}, {"array": ["hello", "world"], "cursor": [0, 0]}]}])

fixed("C12", "C12:interrupted-while-entering-nonblocking", "54141d9",
      "a KeyboardInterrupt raised right after Nonblocking.__enter__ set O_NONBLOCK (or on entry to its __exit__), caught by "
      "the application around Input.send(), left the stream non-blocking between requests",
      [{"kind": "input", "cfg": {"sigint_event": False}, "body": ["send0", "feed", "send0", "send_s", "send0"],
        "tty": "cbreak", "survive": True, "crash": c}
       for c in (["at", "Nonblocking.__enter__", "after fcntl", 2], ["at", "Nonblocking.__exit__", "first", 1],
                 ["at", "Nonblocking.__enter__", "after fcntl", 4])])

fixed("C20", "C20:accepted-config-name-is-dead", "7807a7e",
      "config names C-A..C-Z mapped to <Ctrl-A>.. and 'M- ' to <Esc+ >, names the decoder never produces",
      [{"kind": "config", "name": "C-A", "may_reject": True}, {"kind": "config", "name": "C-I", "may_reject": True},
       {"kind": "config", "name": "M- ", "may_reject": True}])

fixed("C08", "C08:prefix-then-non-ascii-character", "f1ffaa6",
      "Escape / an escape-sequence prefix directly followed by a non-ASCII character in one arrival made send() raise "
      "UnicodeDecodeError and drop the bytes (and the paste being built)",
      [{"kind": "prefixchar", "paste_threshold": None, "pre": B(b"hello ".hex()), "prefix": B("1b"), "char": B("c3a9"),
        "post": B(b" world".hex())},
       {"kind": "prefixchar", "paste_threshold": 8, "pre": B(b"abcdefghijkl".hex()), "prefix": B("1b5b"), "char": B("e282ac"),
        "post": B(b"xyz".hex())}])

fixed("C12", "C12:instance-reuse", "15e1e3f",
      "an Input used on the main thread and then on a worker thread kept the numbers of its closed wake-up pipe: the "
      "second context read (and consumed) data from a pipe the application had opened meanwhile",
      [{"kind": "reuse", "uses": ["main", "thread"], "sigint_event": False, "tty": "cooked"},
       {"kind": "reuse", "uses": ["main", "thread", "thread"], "sigint_event": True, "tty": "cbreak"}])

fixed("C14", "C14:style-named-and-given-a-falsy-value", "6c31357",
      "fmtstr('x', 'bold', bold=0) was accepted and bold although a falsy style value now means off (interaction of 3e6bbf0 and 6d4819a)",
      [{"kind": "invalid", "args": ["bold"], "kwargs": {"bold": 0}},
       {"kind": "invalid", "args": [], "kwargs": {"style": "italic", "italic": 0}}])
fixed("C14", "C14:shared_atts-on-value-without-runs", "4825e64",
      "shared_atts (and with it upper()/ljust()/...) raised IndexError on a FmtStr without runs: f * 0, sep.join([]), FmtStr()",
      [{"kind": "shared-no-runs", "how": "mul0"}, {"kind": "shared-no-runs", "how": "join"}])
fixed("C15", "C15:text-result-parsed-as-markup", "0d6942b",
      "delegated str methods parsed their text result as markup: text holding ESC or U+009B lost characters "
      "(the U+009B case was opened by e2d1c23)",
      [{"kind": "control-text", "spec": [["caf\x9b", {}], [" au lait", {"bold": True}]], "method": "upper", "args": []},
       {"kind": "control-text", "spec": [["\x1b", {"fg": 31}], ["[1mA ", {"fg": 31}]], "method": "strip", "args": []}])

fixed("C08", "C08:burst-behind-incomplete-keypress-not-a-paste", "8474a00",
      "the rest of a buffered, cut multi-byte character arriving together with a large burst: the completing read took the "
      "whole burst along and it came back as single keypresses (left open by e96e5f3 / eb7b570)",
      [{"kind": "behind-incomplete", "paste_threshold": 8, "pre": B(b"ab".hex()), "char": B("e282ac"), "cut": 2,
        "burst": B((b"x" * 500).hex())}])

fixed("C18", "C18:non-ascii-digits-taken-for-a-report", "0292b3b",
      "typed-ahead ESC[<non-ASCII digits>;<digits>R was taken for the terminal's report (\\d on a str pattern)",
      [{"kind": "parse", "extra": "a\x1b[٣;٤R", "csi": "\x1b[", "row": 3, "col": 7, "trailing": "", "fail_at": [],
        "callback": True, "encoding": "utf-8"}])

fixed("C10", "C10:combining-character-opening-a-run-at-a-slice-edge", "e5029ee",
      "a combining character opening a run was lost when the run starts at the slice's end column (its base is the last "
      "character of the slice) and kept when the run starts at the slice's first column (its base is outside)",
      [{"op": "slice", "spec": [["a", RED], ["́b", {}]], "a": 0, "b": 1},
       {"op": "slice", "spec": [["a", RED], ["́b", {}]], "a": 1, "b": 2},
       {"op": "slice", "spec": [["Ｅ", RED], ["́", BLUE], ["b", {}]], "a": 0, "b": 2}])

fixed("C15", "C15:filled-padding-parsed-as-markup", "156ef08",
      "ljust/rjust with a fill character parsed the padded text as markup: text holding ESC or U+009B came back shorter than "
      "the width (the case next to 0d6942b)",
      [{"kind": "control-text", "spec": [["caf\x9b", {}], [" au lait", {"bold": True}]], "method": "ljust", "args": [16, "*"]},
       {"kind": "control-text", "spec": [["\x1b", {"fg": 31}], ["[1mA ", {"fg": 31}]], "method": "rjust", "args": [16, "["]}])
fixed("C15", "C15:tuple-members-unformatted", "6211bbc",
      "partition / rpartition returned bare str members: the shared formatting that rsplit keeps was dropped",
      [{"spec": [["a b", {"fg": 31, "bold": True}]], "method": "partition", "args": [" "], "kwargs": {}},
       {"spec": [["ab", {"fg": 31}], [" c", {"fg": 31, "bg": 44}]], "method": "rpartition", "args": [" "], "kwargs": {}}])

known("C03", "C03:prefix-then-undecodable-byte",
      "get_key raises UnicodeDecodeError for a table-sequence prefix (e.g. ESC) followed by a byte >= 0x80 "
      "that does not decode: ESC + any 8-bit byte under ascii, ESC + a UTF-8 lead/continuation byte under utf-8",
      [{"kind": "node", "encoding": "ascii", "seq": B("1b80"), "mode": "curtsies", "full": False},
       {"kind": "node", "encoding": "utf-8", "seq": B("1bc3"), "mode": "curtsies", "full": False},
       {"kind": "stream", "encoding": "utf-8", "data": B("1bc3a9")}],
      "get_key's contract is 'name the whole byte string or ask for more'; it cannot emit the prefix as a "
      "key and restart at the offending byte, so a repair inside the decoder needs a change of its interface, "
      "not a small patch. Its only caller in the library, Input.find_key, now does that restart itself (see the fixed "
      "entry C08:prefix-then-non-ascii-character), so Input.send() no longer raises or loses bytes; get_key called "
      "directly still raises, which is what this entry records")

fixed("C06", "C06:join-parses-plain-str-as-markup", "9018a47",
      "sep.join([...]) ran plain-str items through fmtstr(): an item holding an escape sequence was parsed as markup, so the "
      "result's text and length differed from str.join's and from a + sep + b (recorded as a known finding at first; repaired "
      "once three independent reviews had read the statement the same way)",
      [{"op": "join_markup", "sep": [[", ", {"fg": 32}]], "items": ["\x1b[31mhi", "x"]},
       {"op": "join_markup", "sep": [[", ", {"fg": 32}]], "items": ["a\x1b[2Jb", "c"]}])
fixed("C09", "C09:plain-str-parsed-as-markup", "9018a47",
      "f.splice(new, ...) / f.append(new) ran a plain str through fmtstr(): a str holding an escape sequence was parsed as markup, "
      "unlike f + new",
      [{"kind": "markup", "spec": [["ab", {"fg": 31}], ["cd", {}]], "new": "\x1b[31mhi", "start": 1},
       {"kind": "markup", "op": "append", "spec": [["xyz", {"bold": True}]], "new": "a\x1b[2Jb", "start": 0}])

out = os.path.join(os.path.dirname(os.path.abspath(__file__)), "known_findings.json")
with open(out, "w") as f:
    json.dump({"findings": F}, f, indent=1, ensure_ascii=True)
print("known_findings.json:", sum(1 for x in F if x["status"] == "known"), "known,",
      sum(1 for x in F if x["status"] == "fixed"), "fixed")
