#!/usr/bin/env python3
"""Developer tool: validate a seeded change and run the checks against it.

  tools_mutants.py validate <dir>      dir holds patch.diff + demo.py (+ meta.json)
        -> scratch worktree of /repo HEAD outside /repo and /verif, applies the patch, runs
           the 77 baseline tests, runs demo.py with and without the patch
  tools_mutants.py run <dir> [ids...]  runs ./check <id> --tier quick (VERIF_REPO=scratch tree)
           for the given property ids (default: the one in meta.json), prints caught / missed
  tools_mutants.py all [ids...]        every /verif/seeded/*/ against its own property
The scratch worktree is removed afterwards.  Nothing is ever applied to /repo itself.
"""
import json
import os
import re
import subprocess
import sys
import tempfile

HERE = os.path.dirname(os.path.abspath(__file__))
PY = "/venv/bin/python"
ENV = dict(os.environ, TERM="xterm-256color", PYTHONDONTWRITEBYTECODE="1")


def sh(cmd, cwd=None, env=None, timeout=1800):
    r = subprocess.run(cmd, cwd=cwd, env=env or ENV, stdout=subprocess.PIPE, stderr=subprocess.STDOUT,
                       text=True, timeout=timeout)
    return r.returncode, r.stdout


class Scratch:
    def __init__(self, patch=None):
        self.dir = tempfile.mkdtemp(prefix="mev-", dir="/tmp")
        os.rmdir(self.dir)
        rc, out = sh(["git", "-C", "/repo", "worktree", "add", "-q", "--detach", self.dir, "HEAD"])
        assert rc == 0, out
        if patch:
            rc, out = sh(["git", "apply", os.path.abspath(patch)], cwd=self.dir)
            if rc != 0:
                rc, out2 = sh(["git", "apply", "-3", os.path.abspath(patch)], cwd=self.dir)
                if rc != 0 or "with conflicts" in out2:
                    self.close()
                    raise RuntimeError("patch does not apply: " + out)

    def close(self):
        sh(["git", "-C", "/repo", "worktree", "remove", "--force", self.dir])

    def __enter__(self):
        return self

    def __exit__(self, *a):
        self.close()


def baseline(tree):
    rc, out = sh([PY, "-m", "pytest", "-q", "-p", "no:cacheprovider", "-x"], cwd=tree)
    m = re.search(r"(\d+) passed", out)
    return rc == 0 and m and int(m.group(1)) == 77, out[-400:]


def demo(tree, demo_py):
    env = dict(ENV, PYTHONPATH=tree)
    rc, out = sh([PY, os.path.abspath(demo_py)], cwd=os.path.dirname(os.path.abspath(demo_py)), env=env, timeout=300)
    return rc, out[-600:]


def validate(d):
    patch, demo_py = os.path.join(d, "patch.diff"), os.path.join(d, "demo.py")
    res = {}
    with Scratch() as clean:
        rc, out = demo(clean.dir, demo_py)
        res["demo_on_clean_exit"] = rc
        if rc != 0:
            res["demo_on_clean_out"] = out
    with Scratch(patch) as mut:
        ok, out = baseline(mut.dir)
        res["baseline_77_pass_with_patch"] = bool(ok)
        if not ok:
            res["baseline_out"] = out
        rc, out = demo(mut.dir, demo_py)
        res["demo_on_mutant_exit"] = rc
        res["demo_on_mutant_tail"] = out[-300:]
    res["valid"] = res["demo_on_clean_exit"] == 0 and res["baseline_77_pass_with_patch"] and res["demo_on_mutant_exit"] != 0
    return res


def run_checks(d, ids, tier="quick"):
    patch = os.path.join(d, "patch.diff")
    out = {}
    with Scratch(patch) as mut:
        env = dict(ENV, VERIF_REPO=mut.dir)
        for pid in ids:
            rc, txt = sh([os.path.join(HERE, "check"), pid, "--tier", tier], cwd=HERE, env=env, timeout=3600)
            mechs = re.findall(r"mechanism=(\S+) count=(\d+)", txt)
            out[pid] = {"exit": rc, "mechanisms": mechs,
                        "verdict": {0: "missed", 1: "caught", 2: "inconclusive", 3: "harness-error"}.get(rc, rc)}
            if rc in (2, 3):
                out[pid]["tail"] = txt[-500:]
    return out


def main():
    cmd = sys.argv[1]
    if cmd == "validate":
        print(json.dumps(validate(sys.argv[2]), indent=1))
    elif cmd == "run":
        d = sys.argv[2]
        ids = sys.argv[3:]
        tier = "quick"
        if ids and ids[-1] in ("quick", "thorough"):
            tier = ids.pop()
        if not ids:
            ids = [json.load(open(os.path.join(d, "meta.json")))["property"]]
        print(json.dumps(run_checks(d, ids, tier), indent=1))
    elif cmd == "all":
        root = os.path.join(HERE, "seeded")
        only = set(sys.argv[2:])
        rows = []
        for name in sorted(os.listdir(root)):
            d = os.path.join(root, name)
            if not os.path.exists(os.path.join(d, "meta.json")):
                continue
            meta = json.load(open(os.path.join(d, "meta.json")))
            if only and meta["property"] not in only and name not in only:
                continue
            if meta.get("superseded"):
                # a later repair of the library made this change harmless: kept for the record
                print("%-28s %s %-12s %s" % (name, meta["property"], "superseded", meta["superseded"][:90]), flush=True)
                continue
            try:
                r = run_checks(d, [meta["property"]])
            except RuntimeError as ex:
                rows.append((name, meta["property"], "STALE-PATCH", str(ex)[:80]))
                print("%-28s %s %-12s %s" % rows[-1], flush=True)
                continue
            v = r[meta["property"]]
            rows.append((name, meta["property"], v["verdict"], v["mechanisms"]))
            print("%-28s %s %-12s %s" % rows[-1], flush=True)
        missed = [r for r in rows if r[2] != "caught"]
        print("caught %d of %d" % (len(rows) - len(missed), len(rows)))


if __name__ == "__main__":
    main()


def refactor_run(d, ids, tier="quick"):
    """run checks against a behaviour-preserving refactoring: every check must stay silent"""
    patch = os.path.join(d, "patch.diff")
    out = {}
    with Scratch(patch) as mut:
        ok, tail = baseline(mut.dir)
        out["baseline_77"] = bool(ok)
        env = dict(ENV, VERIF_REPO=mut.dir)
        for pid in ids:
            rc, txt = sh([os.path.join(HERE, "check"), pid, "--tier", tier], cwd=HERE, env=env, timeout=3600)
            mechs = re.findall(r"mechanism=(\S+) count=(\d+)", txt)
            out[pid] = {"exit": rc, "mechanisms": mechs}
            if rc != 0:
                out[pid]["tail"] = txt[-1500:]
    return out


if __name__ == "__main__" and len(sys.argv) > 1 and sys.argv[1] == "refs":
    root = os.path.join(HERE, "refactorings")
    sel = sys.argv[2:]
    for name in sorted(os.listdir(root)):
        d = os.path.join(root, name)
        if not os.path.exists(os.path.join(d, "patch.diff")) or (sel and not any(s in name for s in sel if not s.startswith("C") or len(s) > 3)):
            pass
        meta = json.load(open(os.path.join(d, "meta.json")))
        if sel and not any(s in name for s in sel):
            continue
        ids = [meta["property"]] + ([] if os.environ.get("REFS_OWN_ONLY") else [p for p in meta.get("also", []) if p != meta["property"]])
        try:
            r = refactor_run(d, ids)
        except RuntimeError as ex:
            print("%-12s STALE-PATCH %s" % (name, str(ex)[:90].replace("\n", " ")), flush=True)
            continue
        alarms = {k: v for k, v in r.items() if isinstance(v, dict) and v["exit"] != 0}
        print("%-12s baseline=%s checks=%s %s" % (name, r["baseline_77"], ",".join(ids),
              "SILENT" if not alarms else "ALARM " + json.dumps({k: [v["exit"], v["mechanisms"][:3]] for k, v in alarms.items()})), flush=True)
