# table of claimed checks; exec'd by tools_manifest.py
TB = ("Trusted base: CPython 3.12, the harness's reference models under /verif/rv/model and the workload "
      "generators; nothing is proved - the verdict covers exactly the executions counted in the evidence file. ")
EX = "exploration"

add("C01", EX, "runtime monitor: independent SGR interpreter on str(f) vs construction spec",
    "Every attribute set (5184 two-state in quick, 59049 tri-state in thorough, plus adjacent pairs) is executed on "
    "the real code and the terminal string is interpreted by an independent SGR model; multi-run strings sampled. "
    "Exhaustive over attribute sets, sampled over texts and run layouts.",
    TB + "Text free of ESC/0x9B as the quantifier says.")
add("C03", EX, "runtime monitor: decoder facts (prefix trie + incremental codecs) at every node of the decoder's decision tree; end-to-end equality through Input over a pty",
    "The real get_key is driven byte by byte over its whole decision tree for ascii and latin-1 (complete) and the "
    "ESC subtree/two levels of utf-8, every table sequence x every byte, table pairs, Unicode scalars (all in "
    "thorough), random chunked streams, and the same reads through Input.send over a pty. One recorded finding "
    "(prefix then undecodable byte).",
    TB + "Names come from the live tables; facts from an independent prefix set and Python's codecs. Deeper invalid "
    "UTF-8 continuations are sampled, not enumerated.")
add("C04", EX, "runtime monitor: cell-grid reference model stepped alongside the real FSArray + icontract row-width invariant",
    "Random assignment histories on small arrays with a grid model compared cell by cell after every step, must-raise "
    "cases checked for no visible change; thorough adds all regions x row-length classes on pre-filled 3x3 arrays.",
    TB + "Long rows landing on never-written cells and zero-area regions are don't-care (counted).")
add("C05", EX, "runtime monitor: round trip and grammar strings compared per cell with the SGR interpreter",
    "All attribute sets round-tripped with newline/tab/wide text, random multi-run round trips, random strings of "
    "the SGR grammar interpreted by the reference interpreter and compared with the parse result.",
    TB + "Grammar restricted to the supported codes and the empty parameter list (the quantifier).")
add("C06", EX, "runtime monitor: Python list operations on observed cell lists as postcondition oracle",
    "Every run layout up to the bound x every slice bound/index in [-len-2, len+2]+None, all layout pairs for +, "
    "repeat counts, joins; results' cells compared with list operations on operand cells.",
    TB + "Cells observed through str()+SGR interpreter (C01).")
add("C09", EX, "runtime monitor: list splice on cell lists as postcondition oracle",
    "Every layout x replacement family x every 0<=start<=end<=len+2 (and end omitted), append, random larger cases; "
    "operands re-observed afterwards.",
    TB + "Cells observed through str()+SGR interpreter (C01).")
add("C10", EX, "runtime monitor: column-expanded cell model with widths from the pure-Python wcwidth package",
    "Every string up to length 3 (5 thorough) over narrow/wide/combining characters x run partitions x every column "
    "range and offset, compared with a column model independent of cwcwidth.",
    TB + "Alphabet restricted to characters on which wcwidth and cwcwidth agree; zero-width characters judged up to attachment.")
add("C11", EX, "runtime monitor: greedy reference wrap on cells",
    "Every string up to length 4 (6 thorough) x run partitions x columns 2..7 wrapped by the real code and compared "
    "line by line with a reference wrap.",
    TB + "Placement of zero-width characters at line boundaries is not judged (they must all survive in order).")
add("C13", EX, "runtime monitor: snapshot registry over straight-line programs + icontract class invariant on memo slots + in-place edit attempts",
    "Seeded programs over a growing pool using the whole public operation set with interleaved observations; every "
    "value's snapshot must never change, memo slots must equal recomputed values (invariant around every method "
    "call), edits must raise.",
    TB + "The memo invariant names the private slots; the behavioural comparison with a fresh copy does not.")
add("C14", EX, "runtime monitor: attribute algebra on cells, all spellings compared",
    "All 59049 specifications (thorough; sample in quick) x 4 base values x 6 spellings; removal of every attribute "
    "subset; copy_with_new_str; shared_atts; invalid catalogue must raise ValueError.",
    TB + "Non-bool style values are recorded, not judged.")
add("C15", EX, "runtime monitor: the str method on the plain text as oracle + positional cell bookkeeping",
    "Enumerated small texts and random layouts x curated str methods x argument pool; text equality with str, "
    "per-position formatting for split/splitlines, shared formatting and no invented formatting otherwise.",
    TB + "Nothing is demanded where str itself raises; padding of ljust/rjust only needs to be free of invented formatting.")
add("C16", EX, "runtime monitor: greedy first-fit reference wrap on cells",
    "Every text up to length 5 (7 thorough) over {a,b,space,tab,newline} x 4 formatting patterns x columns 1..7 plus "
    "random longer texts compared with a reference wrap; joining-space formatting rule checked.",
    TB)
add("C17", EX, "runtime monitor: tagged-piece generator (text known by construction) + subsequence oracle",
    "All strings of <=3 (5 thorough) tokens over a 14-token alphabet, random longer ones, tagged text/escape mixtures, "
    "Pygments output of the repository's sources: never raises, subsequence, text pieces kept, exact for numeric CSI.",
    TB)
add("C19", EX, "runtime monitor: ==/hash/set/dict vs terminal-string equality on all ordered pairs of a pool; eval(repr) cells",
    "All ordered pairs of a 400-value (1500 thorough) engineered pool, plain-str comparisons in both operand orders, "
    "eval(repr(f)) for every value with a run.",
    TB + "Text free of ESC/0x9B.")
add("C20", EX, "runtime monitor: three naming modes executed per node of the decoder's decision tree; producible-name set collected by observation",
    "Every node of the C03 exploration in all modes and both full situations; tables nested; every valid configuration "
    "name must map to names observed from the decoder.",
    TB + "Upper-case C-A, C-1, F13, M-<space> are not configuration-file keys (not judged).")
