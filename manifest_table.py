# table of claimed checks; exec'd by tools_manifest.py
TB = ("Trusted base: CPython 3.12, the harness's reference models under /verif/rv/model, "
      "and the workload generators; nothing is proved - the verdict covers exactly the executions "
      "counted in the evidence file.")

add("C01", "exploration", "runtime monitor: independent SGR interpreter on str(f) vs construction spec",
    "Every attribute set (5184 two-state in quick, 59049 tri-state in thorough) is executed on the real "
    "code and the terminal string is interpreted by an independent SGR model; multi-run strings are "
    "sampled at random. Exhaustive over attribute sets, sampled over texts and run layouts.",
    TB + " Text restricted to strings free of ESC/0x9B as the quantifier says.")
