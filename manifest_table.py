# table of claimed checks; exec'd by tools_manifest.py
TB = ("Trusted base: CPython 3.12, the harness's reference models under /verif/rv/model and the workload "
      "generators; nothing is proved - the verdict covers exactly the executions counted in the evidence file. "
      "FmtStr operands are built through the public API by a COLD route and a WARM route (every memoised view filled, "
      "1 in 48 first uses hit by an injected KeyboardInterrupt), results are judged through a fresh copy and through "
      "their own len/.s/str; the repository's own tests and doctests run under the same monitors where applicable. ")
EX = "exploration"

add("C01", EX, "runtime monitor: independent SGR interpreter on str(f) vs construction spec",
    "Every attribute set (5184 two-state in quick, 59049 tri-state in thorough, plus adjacent pairs) is executed on "
    "the real code and the terminal string is interpreted by an independent SGR model; multi-run strings sampled. "
    "Exhaustive over attribute sets, sampled over texts and run layouts.",
    TB + "Text free of ESC/0x9B as the quantifier says.")
add("C03", EX, "runtime monitor: decoder facts (prefix trie + incremental codecs) at every node of the decoder's decision tree; end-to-end equality through Input over a pty; forked crash-point enumeration inside a decode in progress",
    "The real get_key is driven byte by byte over its whole decision tree for ascii and latin-1 (complete) and the "
    "ESC subtree/two levels of utf-8, every table sequence x every byte, table pairs, Unicode scalars (all in "
    "thorough), random chunked streams, and the same reads through Input.send over a pty (reads that end inside a "
    "keypress are carried into the next read, as Input keeps them). One recorded finding at the decoder itself (prefix "
    "then undecodable byte); where it strikes, Input must either pass the failure on or hand back every byte.",
    TB + "Names come from the live tables; facts from an independent prefix set and Python's codecs. Deeper invalid "
    "UTF-8 continuations are sampled, not enumerated.")
add("C04", EX, "runtime monitor: cell-grid reference model stepped alongside the real FSArray + icontract row-width invariant",
    "Random assignment histories on small arrays with a grid model compared cell by cell after every step, must-raise "
    "cases checked for no visible change, rows also named with omitted/negative bounds (a 0.3 s alarm catches an assignment "
    "that never ends), rows read back from the end; thorough adds all regions x row-length classes on pre-filled 3x3 arrays.",
    TB + "Long rows landing on never-written cells and zero-area regions are don't-care (counted).")
add("C05", EX, "runtime monitor: round trip and grammar strings compared per cell with the SGR interpreter; forked crash-point enumeration over the process's first parse",
    "All attribute sets round-tripped with newline/tab/wide text, random multi-run round trips, random strings of "
    "the SGR grammar interpreted by the reference interpreter and compared with the parse result.",
    TB + "Grammar restricted to the supported codes and the empty parameter list (the quantifier).")
add("C06", EX, "runtime monitor: Python list operations on observed cell lists as postcondition oracle",
    "Every run layout up to the bound x every slice bound/index in [-len-2, len+2]+None, all layout pairs for +, "
    "repeat counts, joins (also over a FmtStr as the iterable), iteration; results' cells compared with list operations "
    "on operand cells. A plain str that holds an escape sequence is text like any other (judged on text and length).",
    TB + "Cells observed through str()+SGR interpreter (C01).")
add("C09", EX, "runtime monitor: list splice on cell lists as postcondition oracle",
    "Every layout x replacement family x every 0<=start<=end<=len+2 (and end omitted), append, random larger cases; "
    "operands re-observed afterwards. A plain str that holds an escape sequence is text like any other (judged on text and length).",
    TB + "Cells observed through str()+SGR interpreter (C01).")
add("C10", EX, "runtime monitor: column-expanded cell model with widths from the pure-Python wcwidth package",
    "Every string up to length 3 (5 thorough) over narrow/wide/combining characters x run partitions x every column "
    "range and offset, compared with a column model independent of cwcwidth.",
    TB + "Alphabet restricted to characters on which wcwidth and cwcwidth agree; zero-width characters judged up to attachment.")
add("C11", EX, "runtime monitor: greedy reference wrap on cells",
    "Every string up to length 4 (6 thorough) x run partitions x columns 2..7 wrapped by the real code and compared "
    "line by line with a reference wrap.",
    TB + "Placement of zero-width characters at line boundaries is not judged (they must all survive in order).")
add("C13", EX, "runtime monitor: snapshot registry over straight-line programs + icontract class invariant on memo slots + in-place edit attempts",
    "Seeded programs over a growing pool using the whole public operation set with interleaved observations; every "
    "value's snapshot must never change, memo slots must equal recomputed values (invariant around every method "
    "call), edits must raise (item assignment, every mutator of a run's attribute dict, assignment to a run's s/atts/width/color_str).",
    TB + "The memo invariant names the private slots; the behavioural comparison with a fresh copy does not.")
add("C14", EX, "runtime monitor: attribute algebra on cells, all spellings compared",
    "All 59049 specifications (thorough; sample in quick) x 4 base values x 6 spellings; removal of every attribute "
    "subset; copy_with_new_str (also with stray zero-length runs); shared_atts; the invalid catalogue (unknown, contradictory, "
    "mis-typed) must raise ValueError through fmtstr and through copy_with_new_atts.",
    TB + "Unusual but meaningful values (bold=0, bold=1, fg=31.0, fg='red' to copy_with_new_atts) may be refused with ValueError "
    "or accepted with their obvious meaning; only an incoherent result is a violation.")
add("C15", EX, "runtime monitor: the str method on the plain text as oracle + positional cell bookkeeping",
    "Enumerated small texts and random layouts x curated str methods x argument pool; text equality with str, "
    "per-position formatting for split/splitlines (every line boundary str.splitlines knows), shared formatting and no "
    "invented formatting otherwise; non-text answers (bytes from encode, ints, bools) must be str's.",
    TB + "Nothing is demanded where str itself raises; padding of ljust/rjust only needs to be free of invented formatting.")
add("C16", EX, "runtime monitor: greedy first-fit reference wrap on cells",
    "Every text up to length 5 (7 thorough) over {a,b,space,tab,newline} x 4 formatting patterns x columns 1..7 plus "
    "random longer texts compared with a reference wrap; joining-space formatting rule checked.",
    TB)
add("C17", EX, "runtime monitor: tagged-piece generator (text known by construction) + subsequence oracle",
    "All strings of <=3 (5 thorough) tokens over a 14-token alphabet, random longer ones, tagged text/escape mixtures, "
    "Pygments output of the repository's sources: never raises, subsequence, text pieces kept, exact for numeric CSI "
    "(7-bit or 8-bit introducer, empty parameters allowed).",
    TB + "What is text is decided by construction of the input, not by a second parser.")
add("C19", EX, "runtime monitor: ==/hash/set/dict vs terminal-string equality on all ordered pairs of a pool; eval(repr) cells",
    "All ordered pairs of a 400-value (1500 thorough) engineered pool, plain-str comparisons in both operand orders, "
    "eval(repr(f)) for every value with a run.",
    TB + "Text free of ESC/0x9B.")
add("C20", EX, "runtime monitor: three naming modes executed per node of the decoder's decision tree; producible-name set collected by observation",
    "Every node of the C03 exploration in all modes and both full situations; tables nested; every valid configuration "
    "name must map to names observed from the decoder.",
    TB + "C-<upper case letter> and M-<space> may be refused or accepted (judged when accepted); C-1, F13, M-<non-ASCII> are not "
    "configuration-file keys (recorded, not judged).")
add("C02", EX, "runtime monitor: recorded out_stream interpreted by a reference terminal (xterm pending-wrap semantics) compared cell by cell after every render",
    "Histories of renders and resizes (random junk left on the screen) on a real FullscreenWindow, sizes 1-6 x 1-8, array "
    "height/row-length classes incl. larger than the terminal; every cell, the cursor and the scroll counter are checked "
    "after each render; thorough starts 2000 histories at each of the 48 sizes.",
    TB + "The terminal model is the root of trust; a sequence it does not know makes the run inconclusive. Single-column characters.")
add("C07", EX, "runtime monitor: reference terminal with scrollback + origin tracking in absolute line numbers",
    "Histories on a real CursorAwareWindow with scripted cursor-query replies from the model: history above the window, "
    "window rows, scroll count, return value and cursor cell checked after every render and after exit; a quarter of the "
    "histories leave the context and enter the same window again.",
    TB + "Rows not longer than the width; DSR replies come from the model.")
add("C08", EX, "runtime monitor: client-boundary history recording + offline history checker (conservation, exactly-once, ordering, timing lower bounds); yield injection; ping-pong and paired-trigger schedule stress",
    "Sequential and concurrent histories against a real Input over a byte-transparent pty; an offline checker decides "
    "conservation/order of bytes, exactly-once per trigger, scheduled-event order, timeouts, paste segmentation, name-mode "
    "segmentation across the 1024-byte read size; sys.monitoring yield injection shakes thread schedules and distinct "
    "interleavings are counted. Scenario families beyond that: bursts behind buffered keys, keypresses cut between two or "
    "three arrivals (also into a blocked request), 6-60 KB floods written in pieces while requests run, escape prefixes "
    "followed by non-ASCII characters, falsy event objects.",
    TB + "Not all interleavings: sampled schedules only; exact paste/segmentation expectations only for bursts <= 4000 bytes that "
    "arrive whole, conservation beyond that; timing conditions are one-sided; scheduled triggers are called from the requesting thread.")
add("C12", "fault_enumeration", "runtime monitor: before/after state snapshots at every crash point - each statement start and each return of a C call (sys.monitoring LINE and C_RETURN failpoints) - option matrix, real SIGINTs",
    "For each scenario of the option matrix the body is first run to count the line-level events of curtsies code, then "
    "re-run once per event raising a KeyboardInterrupt subclass there; tty attributes, file status flags, SIGINT handler, "
    "wake-up fd, fd table and the reference terminal's cursor/buffer state must equal the pre-entry snapshot. Plus "
    "operation-boundary crashes over the whole matrix, applications that catch the interrupt around a request and carry on "
    "(stream never non-blocking between requests), real SIGINTs into blocked requests, a real-SIGINT storm within "
    "microseconds of a key arriving, and fd-leak cycles.",
    TB + "Crash points are statement starts and C-call returns (a bare try: line and a with statement's exit sequence are skipped "
    "as impossible crash points); exceptions inside __enter__/__exit__ of the context under test are out of reach.")
add("C18", EX, "runtime monitor: scripted in_stream accounting for the report parser; movement conservation on the reference terminal incl. nested queries",
    "Random extra/report/trailing scripts with OSError injection: return value, callback bytes, ValueError, characters "
    "consumed; histories of renders, cursor movements and (nested) get_cursor_vertical_diff calls: change of "
    "top_usable_row + returned values = movement, also after a query that failed with the prescribed ValueError; "
    "typed-ahead bytes invalid in the stream encoding (surrogateescape streams).",
    TB + "extra never contains a complete report; window origin inside the screen.")
