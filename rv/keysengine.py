"""Shared exploration engine for C03 and C20: walks the key decoder's own decision tree on
the real events.get_key, in all three naming modes and both `full` situations."""
from .model.keys import Facts, Incomplete, drive

MODES = ("curtsies", "curses", "bytes")


def modes():
    from curtsies.events import Keynames
    return {"curtsies": Keynames.CURTSIES, "curses": Keynames.CURSES, "bytes": Keynames.BYTES}


def outcome(get_key, seq, encoding, km, full):
    """-> ('none',) | ('key', value) | ('raise', exception type name)"""
    try:
        r = get_key([seq[i:i + 1] for i in range(len(seq))], encoding, keynames=km, full=full)
    except Exception as ex:  # noqa
        return ("raise", type(ex).__name__)
    if r is None:
        return ("none",)
    return ("key", r)


def children_bytes(facts, seq, rng, exhaustive):
    """which next bytes to try below a node that asked for more input"""
    if exhaustive or not facts.utf8:
        return range(256)
    if seq[:1] == b"\x1b" or len(seq) < 2:
        return range(256)
    # below the second level of a UTF-8 lead byte: valid continuations are covered by the
    # scalar sweep; sample continuation and non-continuation bytes
    cont = rng.sample(range(0x80, 0xC0), 2)
    other = rng.sample(list(range(0, 0x80)) + list(range(0xC0, 0x100)), 1)
    return sorted(cont + other)


def explore(encoding, rng, visit, exhaustive=False, max_nodes=None):
    """BFS over the decision tree.  visit(seq, results) with
    results[(mode, full)] = outcome.  A node's children are explored when the decoder
    (curtsies mode, full=False) asked for more input.  Returns number of nodes."""
    from curtsies import events
    facts = Facts(encoding)
    km = modes()
    frontier = [b""]
    nodes = 0
    while frontier:
        nxt = []
        for parent in frontier:
            for b in children_bytes(facts, parent, rng, exhaustive):
                seq = parent + bytes([b])
                res = {}
                for m in MODES:
                    for full in (False, True):
                        res[(m, full)] = outcome(events.get_key, seq, encoding, km[m], full)
                nodes += 1
                visit(seq, res)
                if res[("curtsies", False)] == ("none",) and len(seq) < facts.maxlen + 1:
                    nxt.append(seq)
                if max_nodes and nodes >= max_nodes:
                    return nodes
        frontier = nxt
    return nodes
