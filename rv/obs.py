"""Observation of FmtStr values and construction of FmtStrs from run specifications.

A *spec* is a list of runs [[text, atts], ...]; atts maps 'fg' -> 30..37, 'bg' -> 40..47
and style names -> True/False.  `build` goes through the public API only
(fmtstr(text, **atts) and +), so the intended display of every character is known from
the spec (`spec_cells`).  `cells(f)` is the behavioural observation: str() of a copy,
interpreted by the independent SGR interpreter.
"""
import itertools

from .core import HarnessError
from .model import sgr

STYLES = ("bold", "dark", "italic", "underline", "blink", "invert")
FGS = [None] + list(range(30, 38))
BGS = [None] + list(range(40, 48))
BLANKCELL = (" ", None, None, frozenset())


class ObservationFailed(Exception):
    """The value under observation is itself incoherent (attributed to C01/C13)."""


def spec_cells(spec):
    out = []
    for text, atts in spec:
        st = frozenset(k for k in STYLES if atts.get(k))      # on: True (generators use nothing else) or, where a case says so, any truthy value
        fg, bg = atts.get("fg"), atts.get("bg")
        for ch in text:
            out.append((ch, fg, bg, st))
    return out


def touch(f):
    """Fill every memoised view of f (what an application that has already displayed or
    measured the value would have done)."""
    str(f)
    f.s
    len(f)
    try:
        f.width
    except Exception:  # noqa  (unmeasurable text)
        pass
    try:
        hash(f)
        repr(f)
        f.shared_atts
    except Exception:  # noqa  (no runs)
        pass
    return f


BUILD = {"calls": 0, "offset": 0, "warm_builds": 0, "mode": "alternate", "plain_str_runs": 0,
         "shared_run_objects": 0, "interrupted_views": 0, "interrupts_fired": 0}
_FP = [None]


def _coin(salt):
    x = ((BUILD["calls"] + salt * 7919) * 2654435761 + BUILD["offset"] * 40503) & 0xFFFFFFFF
    x ^= x >> 15
    x = (x * 2246822519) & 0xFFFFFFFF
    x ^= x >> 13
    return x


def touch_interrupted(f, k):
    """Use f's views while a KeyboardInterrupt (sys.monitoring failpoint) lands at the k-th
    statement of curtsies code they execute - what a Ctrl-C during a render does - and then
    go on using the value, as an interactive application does."""
    from . import inject
    if _FP[0] is None:
        _FP[0] = inject.Failpoints()
        _FP[0].install()
        _FP[0].mon.set_events(_FP[0].tool, 0)
    fp = _FP[0]
    fp.mon.set_events(fp.tool, fp.mon.events.LINE)
    try:
        for view in (str, lambda x: x.s, len, lambda x: x.width, lambda x: x.divides):
            BUILD["interrupted_views"] += 1
            # every third interruption is an allocation failure instead of a Ctrl-C
            fp.raise_class = inject.InjectMemoryError if k % 3 == 0 else inject.Inject
            fp.arm(k)
            try:
                view(f)
            except (inject.Inject, inject.InjectMemoryError):
                BUILD["interrupts_fired"] += 1
            except Exception:  # noqa
                pass
            finally:
                fp.disarm()
    finally:
        fp.raise_class = inject.Inject
        fp.mon.set_events(fp.tool, 0)
    return f


def interrupted_call(fn, k):
    """run fn() while a KeyboardInterrupt (failpoint) lands at the k-th statement of curtsies code
    it executes; True if the interrupt fired. What fn was working on is then used normally."""
    from . import inject
    if _FP[0] is None:
        _FP[0] = inject.Failpoints()
        _FP[0].install()
        _FP[0].mon.set_events(_FP[0].tool, 0)
    fp = _FP[0]
    fp.mon.set_events(fp.tool, fp.mon.events.LINE)
    try:
        fp.arm(k)
        try:
            fn()
        except inject.Inject:
            BUILD["interrupts_fired"] += 1
            return True
        except Exception:  # noqa
            pass
        finally:
            fp.disarm()
    finally:
        fp.mon.set_events(fp.tool, 0)
    return False


def build(spec, warm=None):
    """Construct the FmtStr a run specification describes, through the public API only.

    Two construction routes are chosen between by a seeded coin per call: COLD - fmtstr(text, **atts) per run, concatenated with +, nothing
    observed before the value is used; WARM - every intermediate value has been used the
    way an application uses it (str, .s, len, width, hash, repr, shared_atts) before it is
    restyled with fmtstr(value, **atts) and concatenated, so every memo slot is full when
    the operation under test runs."""
    from curtsies.formatstring import FmtStr, fmtstr
    BUILD["calls"] += 1
    if warm is None:
        # a seeded coin per call (strict alternation would alias with workload loops that
        # build an even number of values per case)
        x = (BUILD["calls"] * 2654435761 + BUILD["offset"] * 40503) & 0xFFFFFFFF
        x ^= x >> 15
        x = (x * 2246822519) & 0xFFFFFFFF
        x ^= x >> 13
        warm = BUILD["mode"] == "warm" or (BUILD["mode"] == "alternate" and x & 1 == 1)
    if not spec:
        f = FmtStr()
        return touch(f) if warm else f
    # Further route variations, each by its own seeded coin:
    #  - a run without attributes joins as a plain str operand (f + "text", "text" + f);
    #  - identical consecutive runs are the SAME object added twice (p + p), as f * n and
    #    f + f produce;
    #  - (warm only, 1 in 48) the views are first used under an injected KeyboardInterrupt.
    if warm:
        BUILD["warm_builds"] += 1
    f = None
    prev_spec = prev_part = None
    for i, (text, atts) in enumerate(spec):
        c = _coin(i + 1)
        if prev_part is not None and [text, atts] == prev_spec and text and c & 2:
            part = prev_part
            BUILD["shared_run_objects"] += 1
        elif not atts and (c & 12) == 4 and (f is not None or len(spec) > 1):
            part = text                      # plain str operand
            BUILD["plain_str_runs"] += 1
        elif warm:
            base = touch(fmtstr(text))
            part = fmtstr(base, **atts)
            if (c >> 4) % 48 == 1:
                touch_interrupted(part, 1 + (c >> 8) % 18)        # a one-run value's first str() is ~15 statements
            touch(part)
        else:
            part = fmtstr(text, **atts)
        prev_spec, prev_part = [text, atts], (part if not isinstance(part, str) else None)
        if f is None:
            f = part
        elif isinstance(f, str) and isinstance(part, str):
            f = fmtstr(f) + part
        else:
            f = f + part
            if warm:
                if (c >> 6) % 16 == 1:
                    # first use of the fresh value, interrupted somewhere inside it: its first
                    # str() runs roughly 6 + 10 statements per run
                    touch_interrupted(f, 1 + (c >> 12) % (8 + 10 * (i + 1)))
                touch(f)
    if isinstance(f, str):
        f = fmtstr(f)
    return f


def has_escape(text):
    return "\x1b" in text or "\x9b" in text


def cells(f, strict=True):
    """Behavioural observation.  Does not touch f's own memo slots."""
    g = f.copy()
    s = str(g)
    cs, final, other = sgr.interpret(s)
    if strict:
        if other:
            raise ObservationFailed("terminal string has non-SGR content %r" % (other[:3],))
        if final != sgr.DEFAULT:
            raise ObservationFailed("graphic state not reset: %r" % (final,))
        text = "".join(c[0] for c in cs)
        if text != g.s or len(g) != len(cs):
            raise ObservationFailed("displayed text %r, .s %r, len %r" % (text, g.s, len(g)))
    return cs


def result_problems(r, want):
    """Compare a FmtStr result with the wanted cell list.  Uses the fresh-copy observation AND
    the result's own (possibly pre-filled) views len(), .s and str(); anything the real code
    raises while being observed is a problem of the result, not of the harness.
    -> (problems, observed cells or None)"""
    from curtsies.formatstring import FmtStr
    if not isinstance(r, FmtStr):
        return ["result is %s, not a FmtStr" % type(r).__name__], None
    try:
        got = cells(r)
    except ObservationFailed as ex:
        return ["incoherent result: %s" % ex], None
    except Exception as ex:  # noqa
        return ["observing the result raised %r" % (ex,)], None
    problems = []
    if got != want:
        problems.append("cells differ")
    try:
        n = len(r)
        if n != len(want):
            problems.append("len() gives %r for %d characters" % (n, len(want)))
        t = r.s
        if t != text_of(want):
            problems.append(".s gives %r" % (t,))
        own, final, other = sgr.interpret(str(r))
        if own != want or other or final != sgr.DEFAULT:
            problems.append("the result's own str() displays %s" % show(own))
    except Exception as ex:  # noqa
        problems.append("the result's own views raise %r" % (ex,))
    return problems, got


def cells_struct(f):
    """Structural observation through the run list (used where the text itself may contain
    escape characters, so that the terminal string is not interpretable)."""
    runs = getattr(f, "chunks", None)
    if runs is None:
        # the run list is not part of the API; without it fall back to the behavioural
        # observation (text with escape characters then stays unobservable: text only)
        try:
            return cells(f)
        except ObservationFailed:
            return [(c, None, None, frozenset()) for c in f.s]
    out = []
    for ch in runs:
        a = ch.atts
        st = frozenset(k for k in STYLES if a.get(k))
        fg, bg = a.get("fg"), a.get("bg")
        for c in ch.s:
            out.append((c, fg, bg, st))
    return out


def observe(x):
    """cells of a FmtStr or of a plain str (unformatted)."""
    if isinstance(x, str):
        return [(c, None, None, frozenset()) for c in x]
    return cells(x)


def show(cs):
    """Compact printable form of a cell list for evidence / replay files."""
    out = []
    for ch, fg, bg, st in cs:
        tag = "".join([str(fg) if fg else "", "/%s" % bg if bg else "",
                       "".join("+" + s[:2] for s in sorted(st))])
        out.append(ch + (("{%s}" % tag) if tag else ""))
    return "".join(out)


def text_of(cs):
    return "".join(c[0] for c in cs)


# ------------------------------------------------------------------ generators

PALETTE = [
    {}, {"fg": 31}, {"bg": 44}, {"bold": True}, {"fg": 32, "bold": True},
    {"underline": True, "bg": 41}, {"fg": 35, "bg": 42, "invert": True},
    {"italic": True, "blink": True}, {"dark": True, "fg": 30}, {"fg": 37, "bg": 47},
    {"bold": False, "fg": 33}, {"underline": False},
]


def rand_atts(rng, tri=True):
    a = {}
    fg = rng.choice(FGS)
    bg = rng.choice(BGS)
    if fg and rng.random() < .6:
        a["fg"] = fg
    if bg and rng.random() < .5:
        a["bg"] = bg
    for s in STYLES:
        r = rng.random()
        if r < .2:
            a[s] = True
        elif tri and r < .27:
            a[s] = False
    return a


def rand_spec(rng, maxruns=4, maxlen=4, alphabet="abc", empty_runs=True, palette=None):
    n = rng.randint(0, maxruns)
    spec = []
    for _ in range(n):
        l = rng.randint(0 if empty_runs else 1, maxlen)
        text = "".join(rng.choice(alphabet) for _ in range(l))
        atts = dict(rng.choice(palette)) if palette else rand_atts(rng)
        spec.append([text, atts])
        if text and rng.random() < .08 and len(spec) < maxruns + 2:
            spec.append([text, dict(atts)])        # the same run again (as f * 2 / f + f give)
    return spec


def twin(spec, rng):
    """A value that renders exactly like `spec` but has other run boundaries: an unformatted
    run of two or more characters split in two (or two adjacent unformatted runs merged).
    Returns None when the spec has no such run."""
    idx = [i for i, (t, a) in enumerate(spec) if not a and len(t) >= 2]
    if idx:
        i = rng.choice(idx)
        t = spec[i][0]
        k = rng.randint(1, len(t) - 1)
        return spec[:i] + [[t[:k], {}], [t[k:], {}]] + spec[i + 1:]
    for i in range(len(spec) - 1):
        if not spec[i][1] and not spec[i + 1][1] and spec[i][0] and spec[i + 1][0]:
            return spec[:i] + [[spec[i][0] + spec[i + 1][0], {}]] + spec[i + 2:]
    return None


def layouts(max_runs, max_len, min_len=0):
    """All run-length tuples; run i gets palette entry i+1 and fresh letters, so that each
    character is unique in the string and carries its run's formatting."""
    for n in range(max_runs + 1):
        for lens in itertools.product(range(min_len, max_len + 1), repeat=n):
            yield lens


def spec_for_lengths(lens, first_letter=0, palette_offset=1):
    spec = []
    k = first_letter
    for i, l in enumerate(lens):
        text = "".join(chr(ord("a") + (k + j) % 26) for j in range(l))
        k += l
        spec.append([text, dict(PALETTE[(i + palette_offset) % len(PALETTE)])])
    return spec
