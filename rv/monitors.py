"""Monitors on the real functions: postcondition oracles attached in place to the public
operations of the imported curtsies classes, so that ANY workload that merely calls the API
(the repository's own tests, its doctests) is judged by the same reference models as the
generated workloads.  These oracles are specification-free: what a result should look like is
computed from the cells of the operands observed just before the call.

Every wrapper (1) decides whether the call is inside the property's domain (otherwise it is
counted and not judged), (2) observes the operands, (3) calls the real function, (4) compares
with the reference, (5) records the verdict.  Violations are collected, never raised.  A
thread-local flag makes the wrappers transparent while an oracle is running.
"""
import collections
import functools
import json
import re
import threading

from . import obs
from .core import jsonable, sig_hash
from .model import cols, fsgrid

_tl = threading.local()
STATE = {
    "installed": False,
    "judged": collections.Counter(),       # (property, op) -> n
    "out_of_domain": collections.Counter(),
    "violations": [],                      # dicts
    "hashes": collections.defaultdict(set),
    "registry": {},                        # id -> (object, snapshot)
    "registry_checked": 0,
}
MAX_REGISTRY = 20000


def _busy():
    return getattr(_tl, "busy", False)


class _Oracle:
    def __enter__(self):
        _tl.busy = True

    def __exit__(self, *a):
        _tl.busy = False


def in_domain(f):
    """FmtStr whose text is free of escape introducers and whose attributes are the known ones"""
    from curtsies.formatstring import FmtStr
    if not isinstance(f, FmtStr) or not hasattr(f, "chunks"):
        return False
    for ch in f.chunks:
        if obs.has_escape(ch.s):
            return False
        for k, v in ch.atts.items():
            if k == "fg":
                if v not in range(30, 38):
                    return False
            elif k == "bg":
                if v not in range(40, 48):
                    return False
            elif k not in obs.STYLES or not isinstance(v, bool):
                return False
    return True


def operand_cells(x):
    if isinstance(x, str):
        return None if obs.has_escape(x) else obs.observe(x)
    if in_domain(x):
        return obs.cells_struct(x)
    return None


def result_cells(r):
    """behavioural observation of a result (str() + SGR interpreter)"""
    return obs.cells(r)


def record(prop, op, ok, sig, detail=None):
    STATE["judged"][(prop, op)] += 1
    STATE["hashes"][prop].add(sig_hash(repr(sig)))
    if not ok and len(STATE["violations"]) < 200:
        STATE["violations"].append({"property": prop, "op": op, "detail": jsonable(detail)})


def skip(prop, op):
    STATE["out_of_domain"][(prop, op)] += 1


def remember(*values):
    from curtsies.formatstring import FmtStr
    reg = STATE["registry"]
    for v in values:
        if isinstance(v, FmtStr) and id(v) not in reg and len(reg) < MAX_REGISTRY and in_domain(v):
            reg[id(v)] = (v, _snapshot(v))


def _snapshot(x):
    g = x.copy()
    try:
        w = g.width
    except Exception as ex:  # noqa
        w = "raises " + type(ex).__name__
    return (g.s, len(g), w, str(g), repr(g))


def check_registry():
    """C13: no value seen earlier may have changed; own views equal those of a fresh copy"""
    with _Oracle():
        for v, snap in list(STATE["registry"].values()):
            now = _snapshot(v)
            own = None
            try:
                own = (v.s, len(v), str(v))
            except Exception as ex:  # noqa
                own = repr(ex)
            ok = now == snap and own == (snap[0], snap[1], snap[3])
            STATE["registry_checked"] += 1
            record("C13", "registry", ok, ("C13", snap[3]), {"was": snap[:4], "now": now[:4], "own_views": own})


# ------------------------------------------------------------------ wrappers

def wrap_method(cls, name, make):
    orig = cls.__dict__[name]
    w = make(orig)
    functools.update_wrapper(w, orig)
    setattr(cls, name, w)


def install():
    if STATE["installed"]:
        return
    STATE["installed"] = True
    from curtsies import formatstring as F, formatstringarray as A
    FmtStr = F.FmtStr

    # ---- C06 indexing / slicing
    def mk_getitem(orig):
        def __getitem__(self, index):
            if _busy():
                return orig(self, index)
            with _Oracle():
                A_ = operand_cells(self)
                want = None
                if A_ is not None:
                    if isinstance(index, int) and not isinstance(index, bool):
                        if -len(A_) <= index < len(A_):
                            want = [A_[index]]
                    elif isinstance(index, slice) and index.step is None and all(
                            b is None or (isinstance(b, int) and not isinstance(b, bool))
                            for b in (index.start, index.stop)):
                        want = A_[index]
            if want is None:
                skip("C06", "getitem")
                return orig(self, index)
            try:
                r = orig(self, index)
            except Exception as ex:
                record("C06", "getitem", False, ("gi", str(self), repr(index)), {"index": repr(index), "raised": repr(ex), "of": repr(self)})
                raise
            with _Oracle():
                try:
                    got = result_cells(r)
                    ok = got == want and len(r) == len(want)
                except Exception as ex:  # noqa
                    got, ok = repr(ex), False
                record("C06", "getitem", ok, ("gi", str(self), repr(index)),
                       {"of": repr(self), "index": repr(index), "expected": obs.show(want),
                        "got": obs.show(got) if isinstance(got, list) else got})
                remember(self, r)
            return r
        return __getitem__
    wrap_method(FmtStr, "__getitem__", mk_getitem)

    # ---- C06 concatenation
    def mk_add(name, left):
        def make(orig):
            def op(self, other):
                if _busy():
                    return orig(self, other)
                with _Oracle():
                    a, b = operand_cells(self), operand_cells(other) if isinstance(other, (str, FmtStr)) else None
                if a is None or b is None:
                    skip("C06", name)
                    return orig(self, other)
                want = a + b if left else b + a
                r = orig(self, other)
                with _Oracle():
                    try:
                        got = result_cells(r)
                        ok = got == want
                    except Exception as ex:  # noqa
                        got, ok = repr(ex), False
                    record("C06", name, ok, (name, str(self), str(other)),
                           {"a": repr(self), "b": repr(other), "expected": obs.show(want),
                            "got": obs.show(got) if isinstance(got, list) else got})
                    remember(self, other, r)
                return r
            return op
        return make
    wrap_method(FmtStr, "__add__", mk_add("add", True))
    wrap_method(FmtStr, "__radd__", mk_add("radd", False))

    def mk_mul(orig):
        def __mul__(self, n):
            if _busy() or not isinstance(n, int) or isinstance(n, bool) or n < 0 or n > 50:
                return orig(self, n)
            with _Oracle():
                a = operand_cells(self)
            if a is None:
                skip("C06", "mul")
                return orig(self, n)
            r = orig(self, n)
            with _Oracle():
                try:
                    got = result_cells(r)
                    ok = got == a * n
                except Exception as ex:  # noqa
                    got, ok = repr(ex), False
                record("C06", "mul", ok, ("mul", str(self), n), {"of": repr(self), "n": n})
                remember(self, r)
            return r
        return __mul__
    wrap_method(FmtStr, "__mul__", mk_mul)

    def mk_join(orig):
        def join(self, iterable):
            if _busy():
                return orig(self, iterable)
            items = list(iterable)
            with _Oracle():
                sep = operand_cells(self)
                cs = [operand_cells(i) if isinstance(i, (str, FmtStr)) else None for i in items]
            if sep is None or any(c is None for c in cs):
                skip("C06", "join")
                return orig(self, items)
            want = []
            for k, c in enumerate(cs):
                if k:
                    want += sep
                want += c
            r = orig(self, items)
            with _Oracle():
                try:
                    got = result_cells(r)
                    ok = got == want
                except Exception as ex:  # noqa
                    got, ok = repr(ex), False
                record("C06", "join", ok, ("join", str(self), tuple(map(str, items))),
                       {"sep": repr(self), "items": [repr(i) for i in items][:6], "expected": obs.show(want),
                        "got": obs.show(got) if isinstance(got, list) else got})
                remember(self, r, *items)
            return r
        return join
    wrap_method(FmtStr, "join", mk_join)

    # ---- C09 splice
    def mk_splice(orig):
        def splice(self, new_str, start, end=None):
            if _busy():
                return orig(self, new_str, start, end)
            with _Oracle():
                a = operand_cells(self)
                n = operand_cells(new_str) if isinstance(new_str, (str, FmtStr)) else None
            e = start if end is None else end
            if a is None or n is None or not (isinstance(start, int) and isinstance(e, int) and 0 <= start <= e):
                skip("C09", "splice")
                return orig(self, new_str, start, end)
            want = a[:start] + n + a[e:]
            r = orig(self, new_str, start, end)
            with _Oracle():
                try:
                    got = result_cells(r)
                    ok = got == want and obs.cells_struct(self) == a
                except Exception as ex:  # noqa
                    got, ok = repr(ex), False
                record("C09", "splice", ok, ("splice", str(self), str(new_str), start, end),
                       {"of": repr(self), "new": repr(new_str), "start": start, "end": end,
                        "expected": obs.show(want), "got": obs.show(got) if isinstance(got, list) else got})
                remember(self, new_str, r)
            return r
        return splice
    wrap_method(FmtStr, "splice", mk_splice)

    # ---- C14 attribute algebra
    def mk_cwna(orig):
        def copy_with_new_atts(self, **attributes):
            if _busy():
                return orig(self, **attributes)
            with _Oracle():
                a = operand_cells(self)
                okatts = all((k == "fg" and v in range(30, 38)) or (k == "bg" and v in range(40, 48)) or
                             (k in obs.STYLES and isinstance(v, bool)) for k, v in attributes.items())
            if a is None or not okatts:
                skip("C14", "copy_with_new_atts")
                return orig(self, **attributes)
            want = []
            for ch, fg, bg, st in a:
                st = set(st)
                for k, v in attributes.items():
                    if k == "fg":
                        fg = v
                    elif k == "bg":
                        bg = v
                    elif v:
                        st.add(k)
                    else:
                        st.discard(k)
                want.append((ch, fg, bg, frozenset(st)))
            r = orig(self, **attributes)
            with _Oracle():
                try:
                    got = result_cells(r)
                    ok = got == want and obs.cells_struct(self) == a
                except Exception as ex:  # noqa
                    got, ok = repr(ex), False
                record("C14", "copy_with_new_atts", ok, ("cwna", str(self), tuple(sorted(attributes.items()))),
                       {"of": repr(self), "atts": attributes, "expected": obs.show(want),
                        "got": obs.show(got) if isinstance(got, list) else got})
                remember(self, r)
            return r
        return copy_with_new_atts
    wrap_method(FmtStr, "copy_with_new_atts", mk_cwna)

    def mk_nwar(orig):
        def new_with_atts_removed(self, *names):
            if _busy():
                return orig(self, *names)
            with _Oracle():
                a = operand_cells(self)
            if a is None or not all(isinstance(n, str) for n in names):
                skip("C14", "new_with_atts_removed")
                return orig(self, *names)
            want = [(ch, None if "fg" in names else fg, None if "bg" in names else bg,
                     frozenset(s for s in st if s not in names)) for ch, fg, bg, st in a]
            r = orig(self, *names)
            with _Oracle():
                try:
                    got = result_cells(r)
                    ok = got == want
                except Exception as ex:  # noqa
                    got, ok = repr(ex), False
                record("C14", "new_with_atts_removed", ok, ("nwar", str(self), names),
                       {"of": repr(self), "names": names, "expected": obs.show(want)})
                remember(self, r)
            return r
        return new_with_atts_removed
    wrap_method(FmtStr, "new_with_atts_removed", mk_nwar)

    # ---- C15 split / splitlines
    def mk_split(orig):
        def split(self, sep=None, maxsplit=None, regex=False):
            if _busy() or sep is None or maxsplit is not None or not isinstance(sep, str) or sep == "":
                return orig(self, sep, maxsplit, regex)
            with _Oracle():
                a = operand_cells(self)
                usable = a is not None
                if usable and regex:
                    try:
                        usable = re.compile(sep).match("") is None and re.compile(sep).search("") is None
                    except re.error:
                        usable = False
            if not usable:
                skip("C15", "split")
                return orig(self, sep, maxsplit, regex)
            text = obs.text_of(a)
            if regex:
                ms = list(re.finditer(sep, text))
                pos = list(zip([0] + [m.end() for m in ms], [m.start() for m in ms] + [len(text)]))
            else:
                pos, p = [], 0
                for piece in text.split(sep):
                    pos.append((p, p + len(piece)))
                    p += len(piece) + len(sep)
            r = orig(self, sep, maxsplit, regex)
            with _Oracle():
                try:
                    got = [result_cells(x) for x in r]
                    ok = got == [a[i:j] for i, j in pos]
                except Exception as ex:  # noqa
                    ok = False
                record("C15", "split", ok, ("split", str(self), sep, regex), {"of": repr(self), "sep": sep, "regex": regex,
                                                                           "got": [repr(x) for x in r][:8]})
                remember(self, *r)
            return r
        return split
    wrap_method(FmtStr, "split", mk_split)

    def mk_splitlines(orig):
        def splitlines(self, keepends=False):
            if _busy():
                return orig(self, keepends)
            with _Oracle():
                a = operand_cells(self)
                text = obs.text_of(a) if a is not None else None
                usable = a is not None and text.splitlines(True) == re.findall(r"[^\n]*\n|[^\n]+", text)
            if not usable:
                skip("C15", "splitlines")
                return orig(self, keepends)
            pos, p = [], 0
            for piece in text.splitlines(True):
                e = p + len(piece)
                pos.append((p, e if keepends else e - (1 if piece.endswith("\n") else 0)))
                p = e
            r = orig(self, keepends)
            with _Oracle():
                try:
                    ok = [result_cells(x) for x in r] == [a[i:j] for i, j in pos]
                except Exception:  # noqa
                    ok = False
                record("C15", "splitlines", ok, ("splitlines", str(self), bool(keepends)),
                       {"of": repr(self), "keepends": keepends, "got": [repr(x) for x in r][:8]})
                remember(self, *r)
            return r
        return splitlines
    wrap_method(FmtStr, "splitlines", mk_splitlines)

    # ---- C19 equality / hash
    def mk_eq(orig):
        def __eq__(self, other):
            r = orig(self, other)
            if _busy() or not isinstance(other, (str, FmtStr)):
                return r
            with _Oracle():
                want = str(self) == str(other)
                ok = r is want
                if ok and want and isinstance(other, FmtStr):
                    ok = hash(self) == hash(other)
                record("C19", "eq", ok, ("eq", str(self), str(other)), {"a": repr(self), "b": repr(other), "eq": r})
            return r
        return __eq__
    wrap_method(FmtStr, "__eq__", mk_eq)

    # ---- C10 / C11 widths
    def agreed_text(a):
        return all(cols.agreed([c[0]]) for c in a)

    def mk_was(orig):
        def width_aware_slice(self, index):
            if _busy():
                return orig(self, index)
            with _Oracle():
                a = operand_cells(self)
                usable = (a is not None and isinstance(index, slice) and index.step is None and
                          isinstance(index.start, int) and isinstance(index.stop, int) and
                          0 <= index.start <= index.stop and agreed_text(a))
            if not usable:
                skip("C10", "width_aware_slice")
                return orig(self, index)
            E = cols.expected_slice(a, index.start, index.stop)
            r = orig(self, index)
            with _Oracle():
                try:
                    got = result_cells(r)
                    lead, G = cols.group(got)
                    ok = [g[0] for g in G] == [e[0] for e in E]
                    if ok:
                        for (gc, gf), (ec, ef, allowed) in zip(G, E):
                            if ef is not None and gf != ef:
                                ok = False
                except Exception:  # noqa
                    ok = False
                record("C10", "width_aware_slice", ok, ("was", str(self), index.start, index.stop),
                       {"of": repr(self), "range": [index.start, index.stop], "got": repr(r)})
                remember(self, r)
            return r
        return width_aware_slice
    wrap_method(FmtStr, "width_aware_slice", mk_was)

    def mk_wasl(orig):
        def width_aware_splitlines(self, columns):
            if _busy():
                return orig(self, columns)
            with _Oracle():
                a = operand_cells(self)
                usable = a is not None and isinstance(columns, int) and columns >= 2 and agreed_text(a)
            if not usable:
                skip("C11", "width_aware_splitlines")
                return orig(self, columns)
            want = cols.reference_wrap(a, columns)
            lines = list(orig(self, columns))
            with _Oracle():
                try:
                    got = [[c for c in result_cells(l) if cols.w(c[0])] for l in lines]
                    got = [g for g in got if g] if len(got) > len(want) else got
                    ok = got == want
                except Exception:  # noqa
                    ok = False
                record("C11", "width_aware_splitlines", ok, ("wasl", str(self), columns),
                       {"of": repr(self), "columns": columns, "got": [repr(l) for l in lines][:8]})
                remember(self, *lines)
            return iter(lines)
        return width_aware_splitlines
    wrap_method(FmtStr, "width_aware_splitlines", mk_wasl)

    # ---- C16 linesplit
    from .props import c16
    orig_linesplit = F.linesplit

    @functools.wraps(orig_linesplit)
    def linesplit(string, columns):
        if _busy():
            return orig_linesplit(string, columns)
        with _Oracle():
            a = operand_cells(string) if isinstance(string, (str, FmtStr)) else None
            usable = a is not None and isinstance(columns, int) and columns >= 1 and \
                all(c[0] in c16.WS or not c[0].isspace() for c in a)
        if not usable:
            skip("C16", "linesplit")
            return orig_linesplit(string, columns)
        want = c16.reference(a, columns)
        r = orig_linesplit(string, columns)
        with _Oracle():
            ok = True
            try:
                got = [result_cells(l) for l in r]
                if len(got) != len(want):
                    ok = False
                else:
                    for g, wl in zip(got, want):
                        pos = 0
                        for kind, cs in wl:
                            if kind == "w":
                                ok = ok and g[pos:pos + len(cs)] == cs
                                pos += len(cs)
                            else:
                                ok = ok and pos < len(g) and c16.space_ok(g[pos], cs)
                                pos += 1
                        ok = ok and pos == len(g) and len(g) <= columns
            except Exception:  # noqa
                ok = False
            record("C16", "linesplit", ok, ("linesplit", str(string), columns),
                   {"text": repr(string), "columns": columns, "got": [repr(l) for l in r][:8]})
            remember(*r)
        return r
    F.linesplit = linesplit

    # ---- C04 FSArray region assignment
    def mk_setitem(orig):
        def __setitem__(self, slicetuple, value):
            if _busy():
                return orig(self, slicetuple, value)
            with _Oracle():
                plan = _fsarray_plan(self, slicetuple, value)
            if plan is None:
                skip("C04", "setitem")
                return orig(self, slicetuple, value)
            grid, (r0, r1, c0, c1), block = plan
            outcome = grid.assign(r0, r1, c0, c1, block)
            raised = None
            try:
                orig(self, slicetuple, value)
            except Exception as ex:  # noqa
                raised = ex
            with _Oracle():
                if outcome in (fsgrid.OK, fsgrid.ERROR):
                    try:
                        after = [operand_cells(row) + [fsgrid.BLANK] * (self.num_columns - len(row)) for row in self.rows]
                        ok = after == grid.display() and (raised is not None) == (outcome == fsgrid.ERROR) and \
                            all(len(row) <= self.num_columns for row in self.rows)
                    except Exception:  # noqa
                        ok = False
                    record("C04", "setitem", ok, ("setitem", repr(slicetuple), repr(value)[:200], repr(grid.display())[:300]),
                           {"slice": repr(slicetuple), "value": repr(value)[:300], "outcome_expected": outcome,
                            "raised": repr(raised)})
                else:
                    skip("C04", "setitem-dontcare")
            if raised is not None:
                raise raised
        return __setitem__
    wrap_method(A.FSArray, "__setitem__", mk_setitem)


def _fsarray_plan(arr, slicetuple, value):
    from curtsies.formatstring import FmtStr
    from curtsies.formatstringarray import FSArray
    if not isinstance(slicetuple, tuple) or len(slicetuple) != 2:
        return None
    rs, cs = slicetuple
    W = arr.num_columns

    def norm(x, default_stop):
        if isinstance(x, int) and not isinstance(x, bool) and x >= 0:
            return x, x + 1
        if isinstance(x, slice) and x.step is None:
            a = 0 if x.start is None else x.start
            b = default_stop if x.stop is None else x.stop
            if isinstance(a, int) and isinstance(b, int) and 0 <= a <= b:
                return a, b
        return None
    r = norm(rs, len(arr.rows))
    c = norm(cs, W)
    if r is None or c is None:
        return None
    if isinstance(value, FSArray):
        rows = list(value.rows)
    elif isinstance(value, (list, tuple)):
        rows = list(value)
    else:
        return None
    block = []
    for row in rows:
        cells = operand_cells(row) if isinstance(row, (str, FmtStr)) else None
        if cells is None:
            return None
        block.append(cells)
    grid = fsgrid.Grid(0, W)
    for row in arr.rows:
        cells = operand_cells(row)
        if cells is None or len(cells) > W:
            return None
        grid.rows.append(list(cells))
    return grid, (r[0], r[1], c[0], c[1]), block


def dump(path):
    check_registry()
    out = {
        "judged": {"%s:%s" % k: v for k, v in STATE["judged"].items()},
        "out_of_domain": {"%s:%s" % k: v for k, v in STATE["out_of_domain"].items()},
        "violations": STATE["violations"],
        "distinct": {p: len(h) for p, h in STATE["hashes"].items()},
        "hashes": {p: sorted(h)[:200000] for p, h in STATE["hashes"].items()},
        "registry_size": len(STATE["registry"]),
    }
    with open(path, "w") as f:
        json.dump(out, f)
