"""Verdict bookkeeping shared by all property checks.

A property module exposes
    LEVEL            'exploration' | 'fault_enumeration'
    RULE             how cases are generated and what counts as distinct / non-trivial
    run(ctx)         drive the real code over the tier's workload, judging each execution
    run_case(ctx, case)   re-execute one case (replay, known-finding witnesses)
    classify(v)      optional: mechanism name of a violation record
    FLOOR            minimum distinct_nontrivial below which the run is inconclusive
    SHARDS           dict tier -> number of worker subprocesses (default 1)

Verdicts are three valued: exit 0 held on what was observed, exit 1 + VIOLATION line,
exit 2 + INCONCLUSIVE line.  Exit 3 = harness error.
"""
import array
import collections
import hashlib
import json
import os
import random
import subprocess
import sys
import time
import traceback

from . import env

EVIDENCE_DIR = os.path.join(env.VERIF, "evidence")
if env.REPO != "/repo":          # scratch-tree runs (mutants) never touch the real evidence
    EVIDENCE_DIR = os.path.join(env.VERIF, "evidence", "_alt")
REPLAY_DIR = os.path.join(EVIDENCE_DIR, "replays")
SHARD_DIR = os.path.join(EVIDENCE_DIR, "shards")
KNOWN_FILE = os.path.join(env.VERIF, "known_findings.json")
MAX_SAMPLES = 6
MAX_VIOLATION_RECORDS = 200


def jsonable(x):
    if isinstance(x, (str, int, float, bool)) or x is None:
        return x
    if isinstance(x, bytes):
        return {"__bytes__": x.hex()}
    if isinstance(x, (list, tuple)):
        return [jsonable(i) for i in x]
    if isinstance(x, (set, frozenset)):
        return sorted((jsonable(i) for i in x), key=repr)
    if isinstance(x, dict):
        return {str(k): jsonable(v) for k, v in x.items()}
    return repr(x)


def unjson(x):
    if isinstance(x, dict):
        if set(x) == {"__bytes__"}:
            return bytes.fromhex(x["__bytes__"])
        return {k: unjson(v) for k, v in x.items()}
    if isinstance(x, list):
        return [unjson(i) for i in x]
    return x


def sig_hash(sig):
    if not isinstance(sig, (str, bytes)):
        sig = json.dumps(jsonable(sig), sort_keys=True, separators=(",", ":"))
    if isinstance(sig, str):
        sig = sig.encode("utf-8", "surrogatepass")
    return int.from_bytes(hashlib.blake2b(sig, digest_size=8).digest(), "big", signed=True)


class HarnessError(Exception):
    pass


class EnoughViolations(Exception):
    """raised by Ctx.violation once a run has collected so many violations that going on adds
    nothing (and, on a badly broken tree, may take unboundedly long)"""


VIOLATION_CAP = 3000
WALL_BUDGET = {"quick": 420, "thorough": 2400}


class Ctx:
    def __init__(self, pid, tier, seed, shard=(0, 1)):
        self.pid, self.tier, self.seed, self.shard = pid, tier, seed, shard
        self.rng = random.Random((seed * 1000003) ^ (shard[0] * 7919) ^ sig_hash(pid))
        self.evaluations = 0
        self.distinct = set()
        self.counters = collections.Counter()
        self.samples = []
        self.violations = []          # list of dicts
        self.violation_count = 0
        self.mech_counts = collections.Counter()
        self.inconclusive = []
        self.notes = {}
        self.exhaustive = None
        self.t0 = time.time()

    # -- sharding helpers -------------------------------------------------------------
    def mine(self, i):
        """True when enumerated item number i belongs to this shard."""
        return i % self.shard[1] == self.shard[0]

    def share(self, n):
        """This shard's part of n random cases."""
        k, m = self.shard
        return n // m + (1 if k < n % m else 0)

    @property
    def quick(self):
        return self.tier == "quick"

    # -- judging ----------------------------------------------------------------------
    def count(self, key, n=1):
        self.counters[key] += n

    def sample(self, case):
        if len(self.samples) < MAX_SAMPLES:
            self.samples.append(jsonable(case))
        elif self.rng.random() < 0.0005:
            self.samples[self.rng.randrange(MAX_SAMPLES)] = jsonable(case)

    def seen(self, sig, nontrivial=True):
        """Count one judged execution; sig identifies the case for distinct counting."""
        self.evaluations += 1
        if self.evaluations & 63 == 0 and time.time() - self.t0 > WALL_BUDGET[self.tier]:
            # generous wall-clock watchdog: with violations already in hand stop and report
            # them; without any, the run is inconclusive (never a violation by itself)
            if getattr(self, "_unlisted", 0) == 0:
                self.inconclusive_because("wall-clock budget of %ds exceeded" % WALL_BUDGET[self.tier])
            self.notes["stopped_early"] = "wall-clock budget exceeded"
            raise EnoughViolations()
        if nontrivial:
            try:
                self.distinct.add(hash(sig))      # PYTHONHASHSEED=0 in every process
            except TypeError:
                self.distinct.add(sig_hash(sig))

    def violation(self, mech, case, expected=None, got=None, detail=None):
        self.violation_count += 1
        self.mech_counts[mech] += 1
        self._record(mech, case, expected, got, detail)
        if not hasattr(self, "_known_mechs"):
            self._known_mechs = {k["mechanism"] for k in load_known().get("findings", [])
                                 if k["property"] == self.pid and k.get("status") == "known"}
            self._unlisted = 0
        if mech in self._known_mechs:
            return
        self._unlisted += 1
        if self._unlisted == VIOLATION_CAP:
            self.notes["stopped_early"] = "violation cap %d reached" % VIOLATION_CAP
            raise EnoughViolations()

    def _record(self, mech, case, expected, got, detail):
        if sum(1 for v in self.violations if v["mech"] == mech) < 5 and \
                len(self.violations) < MAX_VIOLATION_RECORDS:
            self.violations.append({
                "property": self.pid, "mech": mech, "case": jsonable(case),
                "expected": jsonable(expected), "got": jsonable(got),
                "detail": jsonable(detail), "seed": self.seed, "tier": self.tier})

    def judge(self, ok, case, sig=None, mech="unclassified", expected=None, got=None,
              detail=None, nontrivial=True):
        self.seen(sig if sig is not None else case, nontrivial)
        if self.evaluations % 997 == 1:
            self.sample(case)
        if not ok:
            self.violation(mech, case, expected, got, detail)
        return ok

    def inconclusive_because(self, reason):
        if reason not in self.inconclusive:
            self.inconclusive.append(reason)

    # -- shard transport --------------------------------------------------------------
    def dump_shard(self, path):
        hp = path + ".hashes"
        with open(hp, "wb") as f:
            array.array("q", list(self.distinct)).tofile(f)
        data = {
            "evaluations": self.evaluations, "counters": dict(self.counters),
            "samples": self.samples, "violations": self.violations,
            "violation_count": self.violation_count, "mech_counts": dict(self.mech_counts),
            "inconclusive": self.inconclusive, "notes": jsonable(self.notes),
            "exhaustive": self.exhaustive, "hashes": hp}
        with open(path, "w") as f:
            json.dump(data, f)

    def absorb_shard(self, path):
        with open(path) as f:
            d = json.load(f)
        self.evaluations += d["evaluations"]
        self.counters.update(d["counters"])
        for s in d["samples"]:
            if len(self.samples) < MAX_SAMPLES * 2:
                self.samples.append(s)
        for v in d["violations"]:
            if len(self.violations) < MAX_VIOLATION_RECORDS:
                self.violations.append(v)
        self.violation_count += d["violation_count"]
        self.mech_counts.update(d["mech_counts"])
        for r in d["inconclusive"]:
            self.inconclusive_because(r)
        for k, v in d["notes"].items():
            if isinstance(v, (int, float)) and isinstance(self.notes.get(k), (int, float)):
                self.notes[k] += v
            elif isinstance(v, list) and isinstance(self.notes.get(k), list):
                self.notes[k] = sorted(set(map(json.dumps, self.notes[k])) |
                                       set(map(json.dumps, v)))
                self.notes[k] = [json.loads(x) for x in self.notes[k]]
            else:
                self.notes.setdefault(k, v)
        if d["exhaustive"] is not None:
            self.exhaustive = d["exhaustive"] if self.exhaustive is None \
                else (self.exhaustive and d["exhaustive"])
        a = array.array("q")
        with open(d["hashes"], "rb") as f:
            a.frombytes(f.read())
        self.distinct.update(a)
        os.unlink(d["hashes"])
        os.unlink(path)


def load_known():
    try:
        with open(KNOWN_FILE) as f:
            return json.load(f)
    except FileNotFoundError:
        return {"findings": []}


def finish(ctx, mod):
    """Print verdict lines, write evidence, return exit code."""
    known = load_known()
    mine = [k for k in known.get("findings", []) if k["property"] == ctx.pid]
    known_mechs = {k["mechanism"]: k for k in mine if k.get("status") == "known"}
    fixed_mechs = {k["mechanism"]: k for k in mine if k.get("status") == "fixed"}

    unlisted = [v for v in ctx.violations if v["mech"] not in known_mechs]
    seen_known = sorted(m for m in ctx.mech_counts if m in known_mechs)
    unlisted_mechs = sorted(m for m in ctx.mech_counts if m not in known_mechs)

    code = 0
    for m in seen_known:
        print("KNOWN-FINDING: property=%s %s (%s; %d executions this run)" % (
            ctx.pid, m, known_mechs[m]["what"], ctx.mech_counts[m]))
    not_reproduced = sorted(m for m in known_mechs if m not in ctx.mech_counts)

    if unlisted_mechs:
        code = 1
        os.makedirs(REPLAY_DIR, exist_ok=True)
        done = set()
        for v in unlisted:
            if v["mech"] in done:
                continue
            done.add(v["mech"])
            name = "%s-%s-%016x.json" % (ctx.pid, "".join(
                c if c.isalnum() else "_" for c in v["mech"])[:40],
                sig_hash(json.dumps(v["case"], sort_keys=True)) & (2 ** 64 - 1))
            path = os.path.join(REPLAY_DIR, name)
            with open(path, "w") as f:
                json.dump(v, f, indent=1)
            print("VIOLATION property=%s replay=%s" % (ctx.pid, path))
            print("  mechanism=%s count=%d%s" % (
                v["mech"], ctx.mech_counts[v["mech"]],
                " (was fixed in %s)" % fixed_mechs[v["mech"]].get("commit")
                if v["mech"] in fixed_mechs else ""))
            print("  case=%s" % json.dumps(v["case"])[:600])
            print("  expected=%s" % json.dumps(v["expected"])[:400])
            print("  got=%s" % json.dumps(v["got"])[:400])
            if v.get("detail") is not None:
                print("  detail=%s" % json.dumps(v["detail"])[:400])
        for m in unlisted_mechs:
            if m not in done:
                print("VIOLATION property=%s replay=%s" % (ctx.pid, "(record dropped: %s)" % m))

    floor = getattr(mod, "FLOOR", 2)
    if code == 0:
        if ctx.evaluations == 0:
            ctx.inconclusive_because("no execution was judged")
        elif len(ctx.distinct) < floor:
            ctx.inconclusive_because("distinct_nontrivial %d below floor %d" % (
                len(ctx.distinct), floor))
        if ctx.inconclusive:
            code = 2
            for r in ctx.inconclusive:
                print("INCONCLUSIVE property=%s reason=%s" % (ctx.pid, r))

    wall = time.time() - ctx.t0
    cov = {
        "evaluations": ctx.evaluations,
        "distinct_nontrivial": len(ctx.distinct),
        "rule": mod.RULE,
        "samples": ctx.samples[:MAX_SAMPLES * 2] or ["(none)"],
        "counters": dict(sorted(ctx.counters.items())),
        "violations_by_mechanism": dict(ctx.mech_counts),
        "known_findings_observed": seen_known,
        "known_finding_not_reproduced": not_reproduced,
        "inconclusive_reasons": ctx.inconclusive,
        "shards": ctx.shard[1] if ctx.shard[1] > 1 else getattr(ctx, "nshards", 1),
    }
    if ctx.exhaustive is not None:
        cov["exhaustive"] = bool(ctx.exhaustive)
    from . import obs
    if obs.BUILD["calls"]:
        cov["values_built_cold_warm"] = [obs.BUILD["calls"] - obs.BUILD["warm_builds"], obs.BUILD["warm_builds"]]
        cov["construction_route_variations"] = {k: obs.BUILD[k] for k in (
            "plain_str_runs", "shared_run_objects", "interrupted_views", "interrupts_fired")}
    cov.update(jsonable(ctx.notes))
    ev = {
        "property_id": ctx.pid, "tier": ctx.tier, "seed": ctx.seed, "level": mod.LEVEL,
        "coverage": cov,
        "assumptions": list(getattr(mod, "ASSUMPTIONS", [])),
        "wall_s": round(wall, 2),
        "violations": sum(n for m, n in ctx.mech_counts.items() if m not in known_mechs),
    }
    os.makedirs(EVIDENCE_DIR, exist_ok=True)
    tmp = os.path.join(EVIDENCE_DIR, ".%s.%d.tmp" % (ctx.pid, os.getpid()))
    with open(tmp, "w") as f:
        json.dump(ev, f, indent=1, sort_keys=True)
    os.replace(tmp, os.path.join(EVIDENCE_DIR, "%s.json" % ctx.pid))
    verdict = {0: "HELD", 1: "VIOLATED", 2: "INCONCLUSIVE"}[code]
    print("%s %s tier=%s seed=%d evaluations=%d distinct=%d wall=%.1fs%s" % (
        ctx.pid, verdict, ctx.tier, ctx.seed, ctx.evaluations, len(ctx.distinct), wall,
        " known=%s" % ",".join(seen_known) if seen_known else ""))
    return code


def run_witnesses(ctx, mod):
    """Every run executes the fixed witness of each listed finding (known or fixed)."""
    for k in load_known().get("findings", []):
        if k["property"] != ctx.pid:
            continue
        for w in k.get("witnesses", []):
            before = ctx.violation_count
            mod.run_case(ctx, unjson(w))
            ctx.count("witness_cases")
            if k.get("status") == "known" and ctx.violation_count == before:
                ctx.count("known_witness_passed")


def run_sharded(ctx, mod, nshards, timeout):
    """Run nshards worker subprocesses of this same check and merge their results."""
    os.makedirs(SHARD_DIR, exist_ok=True)
    procs = []
    envd = dict(os.environ, PYTHONHASHSEED="0", VERIF_SEED=str(ctx.seed))
    for i in range(nshards):
        out = os.path.join(SHARD_DIR, "%s.%d.%d.json" % (ctx.pid, os.getpid(), i))
        cmd = [env.PY, os.path.join(env.VERIF, "check"), ctx.pid, "--tier", ctx.tier,
               "--seed", str(ctx.seed), "--shard", "%d/%d" % (i, nshards), "--shard-out", out]
        procs.append((i, out, subprocess.Popen(cmd, env=envd, stdout=subprocess.PIPE,
                                               stderr=subprocess.STDOUT, text=True)))
    deadline = time.time() + timeout
    for i, out, p in procs:
        try:
            stdout, _ = p.communicate(timeout=max(1, deadline - time.time()))
        except subprocess.TimeoutExpired:
            p.kill()
            stdout, _ = p.communicate()
            ctx.inconclusive_because("shard %d timed out after %ds" % (i, timeout))
            continue
        if p.returncode == 3 or not os.path.exists(out):
            sys.stdout.write(stdout[-3000:])
            raise HarnessError("shard %d failed with exit %s" % (i, p.returncode))
        ctx.absorb_shard(out)
    ctx.nshards = nshards


def main(mod, pid, argv):
    import argparse
    ap = argparse.ArgumentParser()
    ap.add_argument("--tier", default=os.environ.get("VERIF_TIER", "quick"),
                    choices=["quick", "thorough"])
    ap.add_argument("--seed", type=int, default=int(os.environ.get("VERIF_SEED", "0")))
    ap.add_argument("--replay")
    ap.add_argument("--shard", default="0/1")
    ap.add_argument("--shard-out")
    a = ap.parse_args(argv)
    shard = tuple(int(x) for x in a.shard.split("/"))
    ctx = Ctx(pid, a.tier, a.seed, shard)
    from . import obs
    obs.BUILD["offset"] = a.seed * 131 + shard[0]
    try:
        if a.replay:
            with open(a.replay) as f:
                rec = json.load(f)
            mod.run_case(ctx, unjson(rec["case"]))
            if ctx.violation_count:
                v = ctx.violations[0]
                print("VIOLATION property=%s replay=%s" % (pid, a.replay))
                print("  mechanism=%s\n  expected=%s\n  got=%s\n  detail=%s" % (
                    v["mech"], json.dumps(v["expected"])[:600], json.dumps(v["got"])[:600],
                    json.dumps(v["detail"])[:600]))
                return 1
            print("%s replay: case holds on the current tree" % pid)
            return 0
        if a.shard_out:
            try:
                mod.run(ctx)
            except EnoughViolations:
                pass
            ctx.dump_shard(a.shard_out)
            return 0
        nshards = getattr(mod, "SHARDS", {}).get(a.tier, 1)
        if nshards > 1:
            run_witnesses(ctx, mod)
            run_sharded(ctx, mod, nshards, getattr(mod, "TIMEOUT", {}).get(a.tier, 3000))
        else:
            try:
                run_witnesses(ctx, mod)
                mod.run(ctx)
            except EnoughViolations:
                pass
        if getattr(mod, "SUITE_MONITOR", False) and getattr(ctx, "_unlisted", 0) < VIOLATION_CAP:
            # the repository's own tests and doctests as one more workload, judged by the
            # monitors attached to the real functions (rv/monitors.py)
            from . import suite
            suite.absorb(ctx, pid)
        return finish(ctx, mod)
    except HarnessError as e:
        print("HARNESS-ERROR property=%s %s" % (pid, e))
        return 3
    except Exception:
        traceback.print_exc()
        print("HARNESS-ERROR property=%s unexpected exception in harness" % pid)
        return 3
