"""Execution environment bootstrap.  Imported before anything touches curtsies.

* puts the repository working tree (VERIF_REPO, default /repo) first on sys.path and
  asserts that `curtsies` is imported from there (otherwise: inconclusive, exit 2);
* forces TERM=xterm-256color, no bytecode written, guard variable CURTSIES_VERIF=1;
* makes /verif/.deps (icontract) importable, installing it offline when absent.
"""
import fcntl
import os
import subprocess
import sys

VERIF = os.path.dirname(os.path.dirname(os.path.abspath(__file__)))
REPO = os.path.abspath(os.environ.get("VERIF_REPO", "/repo"))
DEPS = os.path.join(VERIF, ".deps")
SCRATCH = os.path.join(VERIF, ".scratch")
WHEELS = "/opt/veriftools/wheels"
PY = "/venv/bin/python"

os.environ["TERM"] = "xterm-256color"
os.environ.pop("LINES", None)
os.environ.pop("COLUMNS", None)
os.environ["PYTHONDONTWRITEBYTECODE"] = "1"
os.environ["CURTSIES_VERIF"] = "1"
sys.dont_write_bytecode = True


def ensure_deps():
    """pip-install icontract into /verif/.deps from the offline wheelhouse (idempotent)."""
    marker = os.path.join(DEPS, "icontract", "__init__.py")
    if os.path.exists(marker):
        return True
    os.makedirs(DEPS, exist_ok=True)
    lock = open(os.path.join(DEPS, ".lock"), "w")
    try:
        fcntl.flock(lock, fcntl.LOCK_EX)
        if os.path.exists(marker):
            return True
        r = subprocess.run(
            [PY, "-m", "pip", "install", "--quiet", "--no-index", "--find-links", WHEELS,
             "--target", DEPS, "icontract"],
            stdout=subprocess.PIPE, stderr=subprocess.STDOUT, text=True, timeout=300)
        if r.returncode != 0:
            sys.stderr.write(r.stdout)
        return os.path.exists(marker)
    finally:
        fcntl.flock(lock, fcntl.LOCK_UN)
        lock.close()


def bootstrap():
    if REPO not in sys.path[:1]:
        sys.path.insert(0, REPO)
    if DEPS not in sys.path:
        sys.path.append(DEPS)
    import curtsies
    here = os.path.realpath(curtsies.__file__)
    if not here.startswith(os.path.realpath(REPO) + os.sep):
        print("INCONCLUSIVE reason=curtsies imported from %s, not from %s" % (here, REPO))
        sys.exit(2)
    return curtsies


def scratch_dir():
    import tempfile
    os.makedirs(SCRATCH, exist_ok=True)
    return tempfile.mkdtemp(dir=SCRATCH)
