"""Source-free failpoints and yield injection through sys.monitoring (Python 3.12).

LINE events are requested for code objects whose file lies under <repo>/curtsies; all other
code returns DISABLE on its first event.  Failpoints: while armed, LINE events are counted
and the k-th raises `Inject` (a KeyboardInterrupt subclass, as a SIGINT would) *before* that
line executes.  Yield injection: with probability p per LINE event, sleep(0) or a short
sleep, recording (thread, file, line) so that distinct interleavings can be counted.
"""
import os
import sys
import threading
import time

from . import env


class Inject(KeyboardInterrupt):
    pass


class InjectMemoryError(MemoryError):
    """an allocation that fails at a statement: unlike a KeyboardInterrupt it IS an Exception, so
    a handler written for something else may swallow it"""


class Failpoints:
    def __init__(self, exclude=None, c_returns=False):
        self.c_returns = c_returns      # also crash right after a C function called from the code returns
        self.mon = sys.monitoring
        self.tool = None
        self.root = os.path.join(os.path.realpath(env.REPO), "curtsies") + os.sep
        self.armed = False
        self.raise_class = Inject
        self.count = 0
        self.fire_at = None
        self.fire_where = None
        self._seen_where = 0
        self.where = None
        self.fired = False
        self.exclude = exclude or (lambda code: False)
        self.main_only = True

    def install(self):
        for tid in (self.mon.DEBUGGER_ID, self.mon.PROFILER_ID, 3, 4):
            try:
                self.mon.use_tool_id(tid, "curtsies-verif-failpoints")
                self.tool = tid
                break
            except ValueError:
                continue
        if self.tool is None:
            raise RuntimeError("no free sys.monitoring tool id")
        self.mon.register_callback(self.tool, self.mon.events.LINE, self._on_line)
        if self.c_returns:
            # CPython runs pending signal handlers when a C call returns (and at loop back-edges
            # and function entry): "just after the last C call of a function" is a crash point that
            # no statement start stands for
            self.mon.register_callback(self.tool, self.mon.events.CALL, self._on_call)
            self.mon.register_callback(self.tool, self.mon.events.C_RETURN, self._on_c_return)
            self.mon.set_events(self.tool, self.mon.events.LINE | self.mon.events.CALL)
        else:
            self.mon.set_events(self.tool, self.mon.events.LINE)

    def uninstall(self):
        if self.tool is not None:
            self.mon.set_events(self.tool, 0)
            self.mon.register_callback(self.tool, self.mon.events.LINE, None)
            if self.c_returns:
                self.mon.register_callback(self.tool, self.mon.events.CALL, None)
                self.mon.register_callback(self.tool, self.mon.events.C_RETURN, None)
            self.mon.free_tool_id(self.tool)
            self.tool = None

    def _on_line(self, code, line):
        if os is None:       # interpreter shutdown
            return None
        if not os.path.realpath(code.co_filename).startswith(self.root):
            return self.mon.DISABLE
        if not self.armed:
            return None
        if self.main_only and threading.current_thread() is not threading.main_thread():
            return None
        if self.exclude(code):
            return None
        wl = self._with_lines(code)
        if line in wl and sys._getframe(1).f_lasti > wl[line]:
            # the with statement's exit sequence (LOAD None x3; CALL __exit__) is charged to
            # the `with` line but lies outside its exception table; no signal check and no
            # raising operation happens there before __exit__ itself starts (whose first
            # line is a separate failpoint), so this would be an impossible crash point
            return None
        if line in self._nop_lines(code):
            # a bare `try:` compiles to a NOP that the enclosing with/try exception table
            # does not cover; nothing (no call, no signal check) can raise there in a real
            # run, so a failpoint on it would be an impossible crash point
            return None
        self.count += 1
        if self.fire_at == self.count or self._at(code.co_qualname, line):
            self.where = (os.path.basename(code.co_filename), code.co_qualname, line)
            self.fired = True
            self.armed = False
            raise self.raise_class("failpoint %d at %s:%s:%d" % ((self.count,) + self.where))
        return None

    def _on_call(self, code, offset, callable_, arg0):
        if os is None:
            return None
        if not os.path.realpath(code.co_filename).startswith(self.root):
            return self.mon.DISABLE
        return None

    def _on_c_return(self, code, offset, callable_, arg0):
        if os is None or not self.armed:
            return None
        if not os.path.realpath(code.co_filename).startswith(self.root):
            return None
        if self.main_only and threading.current_thread() is not threading.main_thread():
            return None
        if self.exclude(code):
            return None
        self.count += 1
        if self.fire_at == self.count or self._at(code.co_qualname, "after %s" % getattr(callable_, "__name__", "C call")):
            self.where = (os.path.basename(code.co_filename), code.co_qualname,
                          "after %s" % getattr(callable_, "__name__", "C call"))
            self.fired = True
            self.armed = False
            raise self.raise_class("failpoint %d at %s:%s:%s" % ((self.count,) + self.where))
        return None

    def _nop_lines(self, code):
        cache = self.__dict__.setdefault("_nops", {})
        r = cache.get(code)
        if r is None:
            import dis
            r = set()
            for ins in dis.get_instructions(code):
                if ins.starts_line is not None and ins.opname == "NOP":
                    r.add(ins.starts_line)
            cache[code] = r
        return r

    def _with_lines(self, code):
        cache = self.__dict__.setdefault("_withs", {})
        r = cache.get(code)
        if r is None:
            import dis
            r = {}
            cur = None
            for ins in dis.get_instructions(code):
                if ins.starts_line is not None:
                    cur = ins.starts_line
                if ins.opname in ("BEFORE_WITH", "BEFORE_ASYNC_WITH") and cur is not None:
                    r[cur] = max(r.get(cur, -1), ins.offset)
            cache[code] = r
        return r

    def pause(self):
        """no callbacks at all (real signals are about to be delivered: a callback is Python code,
        and a handler that runs inside it raises at a place no uninstrumented run can raise at)"""
        self.mon.set_events(self.tool, 0)

    def resume(self):
        self.mon.set_events(self.tool, self.mon.events.LINE | (self.mon.events.CALL if self.c_returns else 0))

    def _at(self, qualname, what):
        """crash point named by place: [qualname, 'first'|'last-call'|'after <C function>', nth]"""
        fw = self.fire_where
        if not fw or fw[0] != qualname:
            return False
        if fw[1] == "first" and isinstance(what, int):
            pass
        elif fw[1] != what:
            return False
        self._seen_where += 1
        return self._seen_where == fw[2]

    def arm(self, fire_at=None, fire_where=None):
        self.fire_where = fire_where
        self._seen_where = 0
        self.mon.restart_events()
        self.main_only = self.__dict__.get("main_only", True)
        self.count = 0
        self.fire_at = fire_at
        self.where = None
        self.fired = False
        self.armed = True

    def disarm(self):
        self.armed = False


class Yields:
    """Random yields at statement boundaries of curtsies/input.py to shake thread schedules."""

    def __init__(self, rng_seed, p=0.05, files=("input.py",)):
        import random
        self.mon = sys.monitoring
        self.tool = None
        self.root = os.path.join(os.path.realpath(env.REPO), "curtsies") + os.sep
        self.files = files
        self.p = p
        self.seed = rng_seed
        self.local = threading.local()
        self.active = False
        self.trace = []
        self.lock = threading.Lock()
        self._random = random

    def install(self):
        for tid in (self.mon.PROFILER_ID, self.mon.DEBUGGER_ID, 3, 4):
            try:
                self.mon.use_tool_id(tid, "curtsies-verif-yields")
                self.tool = tid
                break
            except ValueError:
                continue
        if self.tool is None:
            raise RuntimeError("no free sys.monitoring tool id")
        self.mon.register_callback(self.tool, self.mon.events.LINE, self._on_line)
        self.mon.set_events(self.tool, self.mon.events.LINE)

    def uninstall(self):
        if self.tool is not None:
            self.mon.set_events(self.tool, 0)
            self.mon.register_callback(self.tool, self.mon.events.LINE, None)
            self.mon.free_tool_id(self.tool)
            self.tool = None

    def start(self, seed):
        self.seed = seed
        self.trace = []
        self.local = threading.local()
        self.mon.restart_events()
        self.active = True

    def stop(self):
        self.active = False
        return tuple(self.trace)

    def _on_line(self, code, line):
        fn = os.path.realpath(code.co_filename)
        if not fn.startswith(self.root) or os.path.basename(fn) not in self.files:
            return self.mon.DISABLE
        if not self.active:
            return None
        rng = getattr(self.local, "rng", None)
        if rng is None:
            name = threading.current_thread().name
            rng = self.local.rng = self._random.Random("%s/%s" % (self.seed, name))
        r = rng.random()
        if r < self.p:
            with self.lock:
                self.trace.append((threading.current_thread().name, line))
            if r < self.p / 4:
                time.sleep(0.0003)
            else:
                time.sleep(0)
        return None


def fork_crash_points(action, probe, mine=lambda k: True, limit=None):
    """Fault enumeration in forked children.  A probe child first counts the statements of
    curtsies code `action()` executes; then, for every statement k, a fresh child (a fork of
    this process, so whatever `action` initialises lazily is still uninitialised) runs
    `action()` with a KeyboardInterrupt injected at statement k and afterwards `probe()`,
    which returns a list of problems.  -> (n_statements, [result dicts])"""
    import json

    def child(k):
        r, w = os.pipe()
        pid = os.fork()
        if pid == 0:
            os.close(r)
            res = {"k": k, "fired": False, "lines": 0, "bad": []}
            try:
                fp = Failpoints()
                fp.install()
                fp.arm(k if k else None)
                try:
                    action()
                except Inject:
                    res["fired"] = True
                except Exception as ex:  # noqa
                    res["action_raised"] = repr(ex)
                finally:
                    fp.disarm()
                    res["lines"] = fp.count
                    res["where"] = fp.where
                    fp.uninstall()
                res["bad"] = probe()
            except BaseException as ex:  # noqa
                res["error"] = repr(ex)
            try:
                os.write(w, json.dumps(res).encode())
            finally:
                os._exit(0)
        os.close(w)
        data = b""
        while True:
            d = os.read(r, 65536)
            if not d:
                break
            data += d
        os.close(r)
        os.waitpid(pid, 0)
        return json.loads(data.decode()) if data else {"k": k, "error": "no report from child"}
    first = child(0)
    n = first.get("lines", 0)
    out = [first]
    for k in range(1, (min(n, limit) if limit else n) + 1):
        if mine(k):
            out.append(child(k))
    return n, out
