"""Terminal and input plumbing: ptys, byte-transparent line discipline, recorded output
stream feeding the reference terminal, scripted input stream."""
import array
import fcntl
import os
import pty
import struct
import termios
import time


def fionread(fd):
    buf = array.array("i", [0])
    fcntl.ioctl(fd, termios.FIONREAD, buf)
    return buf[0]


def make_transparent(fd):
    """Switch off everything in the line discipline that eats or rewrites bytes, so that what
    the harness writes to the master is what curtsies reads from the slave (Input.__enter__
    only adds cbreak on top of what it finds)."""
    a = termios.tcgetattr(fd)
    a[0] &= ~(termios.IGNBRK | termios.BRKINT | termios.PARMRK | termios.ISTRIP | termios.INLCR |
              termios.IGNCR | termios.ICRNL | termios.IXON | termios.IXOFF | termios.IXANY |
              getattr(termios, "IUTF8", 0))
    a[1] &= ~termios.OPOST
    a[3] &= ~(termios.ISIG | termios.IEXTEN | termios.ECHO | termios.ECHONL | termios.ICANON)
    cc = a[6]
    cc[termios.VMIN] = 1
    cc[termios.VTIME] = 0
    for name in ("VINTR", "VQUIT", "VSUSP", "VSTART", "VSTOP", "VLNEXT", "VDISCARD", "VEOF",
                 "VERASE", "VKILL", "VWERASE", "VREPRINT", "VEOL", "VEOL2"):
        idx = getattr(termios, name, None)
        if idx is not None:
            cc[idx] = 0
    termios.tcsetattr(fd, termios.TCSANOW, a)


class PinnedEncoding:
    """Make curtsies.input see `encoding` as the terminal encoding: its own helper
    getpreferredencoding() is replaced where it exists, and locale.getpreferredencoding
    (which that helper consults) as well, so that the pin survives a renamed helper."""

    def __init__(self, encoding):
        import locale
        import curtsies.input as ci
        self.ci, self.locale, self.encoding = ci, locale, encoding
        self._helper = getattr(ci, "getpreferredencoding", None)
        self._locale = locale.getpreferredencoding
        if self._helper is not None:
            ci.getpreferredencoding = lambda: encoding
        locale.getpreferredencoding = lambda do_setlocale=True: encoding

    def restore(self):
        if self._helper is not None:
            self.ci.getpreferredencoding = self._helper
        self.locale.getpreferredencoding = self._locale


class Pty:
    """One pty pair; `stream` is a text file object on the slave (what curtsies gets)."""

    def __init__(self, rows=24, cols=80, transparent=True):
        self.master, self.slave = pty.openpty()
        self.set_size(rows, cols)
        if transparent:
            make_transparent(self.slave)
        self.initial_attrs = termios.tcgetattr(self.slave)
        self.stream = os.fdopen(self.slave, "r", closefd=False)
        os.set_blocking(self.master, False)

    def set_size(self, rows, cols):
        fcntl.ioctl(self.master, termios.TIOCSWINSZ, struct.pack("HHHH", rows, cols, 0, 0))
        self.rows, self.cols = rows, cols

    def feed_nowait(self, data):
        """write without waiting for arrival (canonical mode hides bytes from FIONREAD)"""
        os.set_blocking(self.master, True)
        try:
            os.write(self.master, data)
        finally:
            os.set_blocking(self.master, False)
        time.sleep(0.0005)

    def feed(self, data, timeout=5.0):
        """Write to the master and wait until the slave reports all of it readable
        (delivery is asynchronous). Returns True when arrived."""
        assert len(data) <= 4000, "pty line discipline buffers at most 4095 bytes"
        before = fionread(self.slave)
        os.set_blocking(self.master, True)
        try:
            os.write(self.master, data)
        finally:
            os.set_blocking(self.master, False)
        deadline = time.monotonic() + timeout
        while fionread(self.slave) < before + len(data):
            if time.monotonic() > deadline:
                return False
            time.sleep(0.0002)
        return True

    def pending(self):
        return fionread(self.slave)

    def drain_slave(self):
        """throw away unread input (between cases)"""
        fl = fcntl.fcntl(self.slave, fcntl.F_GETFL)
        fcntl.fcntl(self.slave, fcntl.F_SETFL, fl | os.O_NONBLOCK)
        got = b""
        try:
            while True:
                try:
                    d = os.read(self.slave, 65536)
                except BlockingIOError:
                    break
                if not d:
                    break
                got += d
        finally:
            fcntl.fcntl(self.slave, fcntl.F_SETFL, fl)
        return got

    def drain_master(self):
        got = b""
        while True:
            try:
                d = os.read(self.master, 65536)
            except (BlockingIOError, OSError):
                break
            if not d:
                break
            got += d
        return got

    def close(self):
        for fd in (self.master, self.slave):
            try:
                os.close(fd)
            except OSError:
                pass


class TeeOut:
    """out_stream for the window classes: write() is recorded and fed synchronously to a
    sink (the reference terminal); fileno() is a pty slave so that blessed reads the size
    the harness set with TIOCSWINSZ."""

    def __init__(self, rows, cols, sink=None):
        self.master, self.slave = pty.openpty()
        self.set_size(rows, cols)
        self.log = []
        self.sink = sink
        self.fail_after = None      # raise OSError after this many more writes (fault injection)

    def set_size(self, rows, cols):
        fcntl.ioctl(self.master, termios.TIOCSWINSZ, struct.pack("HHHH", rows, cols, 0, 0))
        self.rows, self.cols = rows, cols

    def write(self, s):
        self.log.append(s)
        if self.sink:
            self.sink(s)
        return len(s)

    def flush(self):
        pass

    def fileno(self):
        return self.slave

    def isatty(self):
        return True

    def close(self):
        for fd in (self.master, self.slave):
            try:
                os.close(fd)
            except OSError:
                pass


class ScriptedIn:
    """in_stream for CursorAwareWindow: hands out scripted characters; fileno() is a pty
    slave so Cbreak/termios work; counts what was consumed; can raise OSError and call back
    into the harness during a read."""

    def __init__(self, encoding="utf-8"):
        self.master, self.slave = pty.openpty()
        self.encoding = encoding
        self.errors = "strict"     # like a text stream's .errors; "surrogateescape" for sys.stdin
        self.q = ""
        self.consumed = 0
        self.oserrors = 0          # raise OSError on the next k reads
        self.fail_plan = []        # per read call: True = raise OSError (consumed front first)
        self.hook = None           # called once at the start of the next read
        self.reads = 0

    def fileno(self):
        return self.slave

    def push(self, s):
        self.q += s

    def read(self, n=1):
        self.reads += 1
        if self.hook is not None:
            h, self.hook = self.hook, None
            h()
        if self.oserrors > 0:
            self.oserrors -= 1
            raise OSError(5, "scripted read failure")
        if self.fail_plan and self.fail_plan.pop(0):
            raise OSError(5, "scripted read failure")
        r, self.q = self.q[:n], self.q[n:]
        self.consumed += len(r)
        return r

    def close(self):
        for fd in (self.master, self.slave):
            try:
                os.close(fd)
            except OSError:
                pass
