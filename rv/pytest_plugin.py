"""pytest plugin: attach the runtime monitors (rv/monitors.py + icontract memo invariant) before
the repository's tests and doctests are collected; dump what they observed at session end."""
import os


def pytest_configure(config):
    from rv import env
    env.bootstrap()
    from rv import monitors
    monitors.install()
    try:
        from rv.props import c13
        c13.install_invariant()
    except Exception:  # noqa
        pass


def pytest_sessionfinish(session, exitstatus):
    from rv import monitors
    out = os.environ.get("RV_MONITOR_OUT")
    if out:
        try:
            from rv.props import c13
            for st in c13.STATE["stale"]:
                monitors.record("C13", "memo-invariant", False, ("stale", repr(st)), st)
            monitors.STATE["judged"][("C13", "memo-invariant")] += c13.STATE["evaluations"]
        except Exception:  # noqa
            pass
        monitors.dump(out)
