"""C16 - linesplit word-wraps without losing, reordering or restyling words."""
import itertools
import re

from .. import obs

LEVEL = "exploration"
SUITE_MONITOR = True      # also judge the repository's own tests/doctests through rv/monitors.py
RULE = ("Every text up to length N (5 quick, 7 thorough) over {a, b, space, tab, newline} x "
        "formatting patterns (plain str argument, uniform, changing at every character, changing "
        "every second character - i.e. inside words and inside whitespace runs) x columns 1..7 is "
        "passed to the real linesplit and compared with a greedy first-fit reference on cells "
        "(words, gaps, fit test len(line)+1+len(word) <= columns, long words chopped into "
        "full-length pieces). The joining space must carry exactly the gap's formatting when the "
        "gap is uniformly formatted and otherwise only attribute values some gap character has. "
        "Random longer texts on top. distinct = distinct (text, pattern, columns); non-trivial = "
        "at least one word.")
FLOOR = 2000
SHARDS = {"quick": 4, "thorough": 16}
ASSUMPTIONS = ["whitespace = what Python's \\s matches among the generated characters (space, tab, newline)"]

WS = " \t\n"


def words_and_gaps(cells):
    """-> (words, gaps): words list of cell lists, gaps[i] = whitespace cells between
    word i and word i+1."""
    words, gaps, cur, gap = [], [], [], []
    for c in cells:
        if c[0].isspace():        # what \s matches in a str pattern: every Unicode whitespace character
            if cur:
                words.append(cur)
                cur = []
                gap = []
            gap.append(c)
        else:
            if not cur and words:
                gaps.append(gap)
            cur.append(c)
    if cur:
        words.append(cur)
    return words, gaps[:max(0, len(words) - 1)]


def reference(cells, columns):
    """-> list of lines; a line is a list of items: ('w', cells) or ('s', gapcells)."""
    words, gaps = words_and_gaps(cells)
    if not words:
        return []

    def chop(w):
        return [[("w", w[i:i + columns])] for i in range(0, len(w), columns)]

    def length(line):
        return sum(len(x[1]) if x[0] == "w" else 1 for x in line)

    lines = chop(words[0])
    for w, g in zip(words[1:], gaps):
        if length(lines[-1]) + 1 + len(w) <= columns:
            lines[-1] += [("s", g), ("w", w)]
        else:
            lines.extend(chop(w))
    return lines


def fmt_of(cell):
    return cell[1:]


def space_ok(space_cell, gap):
    if space_cell[0] != " ":
        return False
    fmts = {fmt_of(c) for c in gap}
    if len(fmts) == 1:
        return fmt_of(space_cell) in fmts
    fg, bg, st = fmt_of(space_cell)
    if fg is not None and all(c[1] != fg for c in gap):
        return False
    if bg is not None and all(c[2] != bg for c in gap):
        return False
    return all(any(s in c[3] for c in gap) for s in st)


def classify(case):
    text = case["text"]
    if not text.strip(WS):
        return "C16:no-words"
    return "C16:wrap"


def make_arg(case):
    text, pattern = case["text"], case["pattern"]
    if pattern == "str":
        return text, obs.observe(text)
    if pattern == "uniform":
        spec = [[text, {"fg": 34, "underline": True}]]
    elif pattern == "uniform+empty":
        # one formatting for every character, held in one run per character, with empty runs of
        # another formatting in between (also in the middle of whitespace)
        spec = []
        for ch in text:
            spec.append([ch, {"fg": 34, "underline": True}])
            spec.append(["", {"bg": 45, "invert": True}])
        if not spec:
            spec = [["", {}]]
    elif pattern == "rendered":
        # a plain str that is the terminal string of a formatted text (what str(f) gives, or a
        # line of coloured program output): linesplit takes it as the text it displays
        spec = [[text[i:i + 2], dict(obs.PALETTE[(i // 2 + 1) % len(obs.PALETTE)])] for i in range(0, len(text), 2)]
        return str(obs.build(spec)) if spec else "", obs.spec_cells(spec)
    else:
        k = 1 if pattern in ("every1", "every1+empty") else 2
        spec = [[text[i:i + k], dict(obs.PALETTE[(i // k + 1) % len(obs.PALETTE)])]
                for i in range(0, len(text), k)]
        if pattern == "every1+empty":
            # empty runs carrying attributes no character has, at every second boundary
            out = []
            for i, r in enumerate(spec):
                out.append(r)
                if i % 2 == 0:
                    out.append(["", {"bg": 45, "invert": True}])
            spec = out
        if not spec:
            spec = [["", {}]]
    return obs.build(spec), obs.spec_cells(spec)


def run_case(ctx, case):
    from curtsies.formatstring import linesplit
    columns = case["columns"]
    arg, F = make_arg(case)
    want = reference(F, columns)
    mech = classify(case)
    nontrivial = bool(want)
    try:
        lines = linesplit(arg, columns)
        if case.get("again", True):
            # asking again must give the same answer (nothing may be carried over)
            first = [obs.cells(l) for l in lines]
            lines = linesplit(arg, columns)
            if [obs.cells(l) for l in lines] != first:
                ctx.judge(False, case, mech="C16:second-call-differs", expected=[obs.show(g) for g in first],
                          got=[obs.show(obs.cells(l)) for l in lines])
                return
        got = [obs.cells(l) for l in lines]
    except obs.ObservationFailed as ex:
        ctx.judge(False, case, mech="C16:incoherent-result", got=str(ex))
        return
    except Exception as ex:  # noqa
        ctx.judge(False, case, mech=mech, expected=[_show(l) for l in want], got=repr(ex),
                  nontrivial=nontrivial)
        return
    problems = []
    if not want:
        # no words: no line may hold anything
        if any(g for g in got):
            problems.append("lines for a text without words")
    elif len(got) != len(want):
        problems.append("%d lines, reference has %d" % (len(got), len(want)))
    else:
        for i, (g, wl) in enumerate(zip(got, want)):
            if len(g) > columns:
                problems.append("line %d longer than columns" % i)
            if g and (g[0][0].isspace() or g[-1][0].isspace()):
                problems.append("line %d starts/ends with whitespace" % i)
            pos = 0
            for kind, cs in wl:
                if kind == "w":
                    if g[pos:pos + len(cs)] != cs:
                        problems.append("line %d: word differs at %d" % (i, pos))
                    pos += len(cs)
                else:
                    if pos >= len(g) or not space_ok(g[pos], cs):
                        problems.append("line %d: joining space at %d badly formatted" % (i, pos))
                    pos += 1
            if pos != len(g):
                problems.append("line %d has extra characters" % i)
    ctx.judge(not problems, case, mech=mech, expected=[_show(l) for l in want],
              got=[obs.show(g) for g in got], detail=problems[:4], nontrivial=nontrivial)
    if not isinstance(arg, str) and obs.cells(arg) != F:
        ctx.judge(False, case, mech="C16:operand-changed")


def _show(line):
    return "".join(obs.show(cs) if k == "w" else "<sp:%s>" % obs.show(cs) for k, cs in line)


PATTERNS = ["str", "uniform", "every1", "every2", "every1+empty", "uniform+empty", "rendered"]


def run(ctx):
    N = 5 if ctx.quick else 7
    n = 0
    for L in range(0, N + 1):
        for chars in itertools.product("ab \t\n", repeat=L):
            text = "".join(chars)
            n += 1
            if not ctx.mine(n):
                continue
            for pattern in PATTERNS:
                for columns in range(1, 8):
                    run_case(ctx, {"text": text, "pattern": pattern, "columns": columns})
            ctx.count("texts_enumerated")
    if ctx.shard[0] == 0:
        # one very long word (a path, a base64 blob): chopped into thousands of pieces
        for L, cols_ in ((1500, 1), (3000, 2), (5000, 7)):
            run_case(ctx, {"text": "ab " + "x" * L + " cd", "pattern": "uniform", "columns": cols_, "again": False})
    ctx.exhaustive = True
    ctx.notes["max_length_enumerated"] = N
    rng = ctx.rng
    for _ in range(ctx.share(3000 if ctx.quick else 150000)):
        r_ = rng.random()
        alpha = "abcdefg    \t\n" if r_ < .5 else "ab一Ｅ́é\x01  \t\n" if r_ < .8 else "abc  \xa0\u2003\u3000\x85\u2028\x1c\r\x0b"
        text = "".join(rng.choice(alpha) for _ in range(rng.randint(0, 40)))
        run_case(ctx, {"text": text, "pattern": rng.choice(PATTERNS), "columns": rng.randint(1, 12)})
        ctx.count("random_texts")
