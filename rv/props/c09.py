"""C09 - splice replaces exactly the requested range and nothing else."""
from .. import obs
from .c06 import operand, op_cells

LEVEL = "exploration"
SUITE_MONITOR = True      # also judge the repository's own tests/doctests through rv/monitors.py
RULE = ("f.splice(new, start, end) / f.append(x) executed on the real FmtStr for every run "
        "layout up to the bound, every replacement from a family (empty str, 1-2 chars, 2-run "
        "FmtStr, FmtStr with an empty run, no-run FmtStr) and every 0 <= start <= end <= len+2 "
        "plus end omitted; the result's cell list must equal F[:start] + N + F[end:] and f must "
        "be unchanged. distinct = distinct (layout, replacement, start, end); non-trivial = f or "
        "new has a character.")
FLOOR = 2000
SHARDS = {"thorough": 16}
ASSUMPTIONS = ["cells observed through str() + SGR interpreter"]

NEWS = ["", "x", "xy",
        [["X", {"fg": 36}], ["Y", {"bg": 45, "bold": True}]],
        [["", {"fg": 36}], ["Z", {"underline": True}]],
        [["W", {"italic": True}], ["", {}]],
        [],
        [["", {}]]]


def classify(case):
    spec, new, s, e = case["spec"], case["new"], case["start"], case.get("end")
    F = obs.spec_cells(spec)
    N = op_cells(new)
    if e is None:
        e = s
    if not N:
        return "C09:empty-replacement"
    if s == e:
        # pure insertion
        bounds = []
        k = 0
        for t, _ in spec:
            bounds.append((k, k + len(t)))
            k += len(t)
        if s == 0 and any(a == b == 0 for a, b in bounds) and len(spec) > 1:
            return "C09:insert-at-0-after-empty-run"
        if 0 < s < len(F) and any(a == s for a, b in bounds):
            return "C09:insert-at-run-boundary"
    return "C09:splice"


def run_case(ctx, case):
    try:
        _run_case(ctx, case)
    except obs.ObservationFailed as ex:
        ctx.judge(False, case, mech="C09:incoherent-result", got=str(ex))


MARKUP_STRS = ["\x1b[31mhi", "a\x1b[2Jb", "\x1b[31m", "x\x1b[0m"]


def run_markup(ctx, case):
    """a plain str that happens to hold an escape sequence: its characters are text like any other
    (that is what + does with it); judged on the result's text and length only - the display of
    a string holding ESC is outside what the cell observer models"""
    spec, new, s = case["spec"], case["new"], case["start"]
    f = obs.build(spec)
    text = "".join(t for t, _ in spec)
    want = text[:s] + new + text[s:] if case.get("op") != "append" else text + new
    try:
        r = f.append(new) if case.get("op") == "append" else f.splice(new, s)
        got = [r.s, len(r)]
    except Exception as ex:  # noqa
        got = repr(ex)
    ctx.judge(got == [want, len(want)], case, ("C09", "markup", repr(case)), "C09:plain-str-parsed-as-markup",
              [want, len(want)], got, "f + new gives %r" % ((f + new).s,))


def _run_case(ctx, case):
    from curtsies.formatstring import FmtStr
    if case.get("kind") == "markup":
        return run_markup(ctx, case)
    if case.get("twin_first"):
        _run_case(ctx, dict(case, spec=case["twin_first"], twin_first=None))
    spec, new = case["spec"], case["new"]
    F = obs.spec_cells(spec)
    N = op_cells(new)
    f = obs.build(spec)
    nv = operand(new)
    nontrivial = bool(F or N)
    pre = case.get("prelude")
    if pre:
        # what the application did just before, on another value: a splice that was refused, one
        # that a Ctrl-C cut short, or one that inserted - as plain text - the very terminal string
        # of the value spliced now.  None of it may show in the splice judged below.
        other = obs.build([["pq", {"bg": 44}], ["rs", {}], ["tuv", {"underline": True}]])
        try:
            if pre[0] == "refused":
                other.splice(nv, 5.5)
            elif pre[0] == "interrupted":
                if obs.interrupted_call(lambda: other.splice(nv, 3, 5), pre[1]):
                    ctx.count("splices_interrupted_at_a_statement")
            elif pre[0] == "terminal-string-as-text" and not isinstance(nv, str):
                other.splice(str(nv), 1)
                other.append(str(nv))
        except Exception:  # noqa
            pass
    if case.get("op") == "append":
        want = F + N
        mech = "C09:append" if N else "C09:empty-replacement"
        try:
            r = f.append(nv)
        except Exception as ex:  # noqa
            ctx.judge(False, case, mech=mech, expected=obs.show(want), got=repr(ex),
                      nontrivial=nontrivial)
            return
    else:
        s, e = case["start"], case.get("end")
        want = F[:s] + N + F[(s if e is None else e):]
        mech = classify(case)
        try:
            r = f.splice(nv, s) if e is None else f.splice(nv, s, e)
        except Exception as ex:  # noqa
            ctx.judge(False, case, mech=mech, expected=obs.show(want), got=repr(ex),
                      nontrivial=nontrivial)
            return
    problems, got = obs.result_problems(r, want)
    ctx.judge(not problems, case, mech=mech, expected=obs.show(want),
              got=obs.show(got) if got is not None else None, detail=problems, nontrivial=nontrivial)
    if not problems and case.get("op") != "append":
        # the result goes on behaving like its characters: appending to it lands at its end
        try:
            r2 = r.append("!")
            p2, g2 = obs.result_problems(r2, want + obs.observe("!"))
        except Exception as ex:  # noqa
            p2, g2 = ["append to the result raised %r" % (ex,)], None
        if p2:
            ctx.judge(False, case, mech=mech + "-then-append", expected=obs.show(want) + "!",
                      got=obs.show(g2) if g2 is not None else None, detail=p2)
    after = obs.cells(f)
    if after != F:
        ctx.judge(False, case, mech="C09:operand-changed", expected=obs.show(F),
                  got=obs.show(after))
    if not isinstance(nv, str) and obs.cells(nv) != N:
        ctx.judge(False, case, mech="C09:operand-changed", expected=obs.show(N),
                  got=obs.show(obs.cells(nv)))


def run(ctx):
    quick = ctx.quick
    lays = list(obs.layouts(3, 2)) if quick else list(obs.layouts(4, 3))
    ctx.notes["layouts"] = len(lays)
    n = 0
    for lens in lays:
        spec = obs.spec_for_lengths(lens)
        L = sum(lens)
        for new in NEWS:
            n += 1
            if ctx.mine(n):
                run_case(ctx, {"op": "append", "spec": spec, "new": new})
                ctx.count("appends")
            for s in range(0, L + 3):
                for e in [None] + list(range(s, L + 3)):
                    n += 1
                    if ctx.mine(n):
                        run_case(ctx, {"spec": spec, "new": new, "start": s, "end": e})
                        ctx.count("splices")
    ctx.exhaustive = True
    rng = ctx.rng
    pal = obs.PALETTE
    if ctx.shard[0] == 0:
        for new in MARKUP_STRS:
            for spec in ([["ab", {"fg": 31}], ["cd", {}]], [["xyz", {"bold": True}]]):
                run_case(ctx, {"kind": "markup", "spec": spec, "new": new, "start": 1})
                run_case(ctx, {"kind": "markup", "op": "append", "spec": spec, "new": new, "start": 0})
                ctx.count("plain_str_with_escape_sequences")
    for _ in range(ctx.share(4000 if quick else 800000)):
        spec = obs.rand_spec(rng, 6, 4, "abcdef一\n", palette=obs.PALETTE)
        L = sum(len(t) for t, _ in spec)
        new = rng.choice(NEWS) if rng.random() < .5 else obs.rand_spec(rng, 3, 3, "XYZ", palette=obs.PALETTE)
        s = rng.randint(0, L + 2)
        e = rng.choice([None, rng.randint(s, L + 2)])
        case = {"spec": spec, "new": new, "start": s, "end": e}
        if rng.random() < .15 and e is not None and e > s and L:
            # the replacement spells the very characters it replaces, formatted differently (a
            # re-highlight): the result has the new formatting there
            text = "".join(t for t, _ in spec)[s:e]
            if text:
                k = rng.randint(0, len(text))
                new = [r for r in ([text[:k], dict(rng.choice(pal))], [text[k:], dict(rng.choice(pal))]) if r[0]]
                case = {"spec": spec, "new": new, "start": s, "end": e}
        tw = obs.twin(spec, rng)
        if tw is not None and rng.random() < .5:
            case["twin_first"] = tw
        r_ = rng.random()
        if r_ < .04:
            case["prelude"] = ["refused"]
        elif r_ < .10:
            case["prelude"] = ["interrupted", rng.randint(1, 40)]
        elif r_ < .16:
            case["prelude"] = ["terminal-string-as-text"]
        run_case(ctx, case)
        ctx.count("random_splices")
