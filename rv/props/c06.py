"""C06 - indexing, slicing, +, * and join act like str and carry formatting along."""
import itertools

from .. import obs

LEVEL = "exploration"
SUITE_MONITOR = True      # also judge the repository's own tests/doctests through rv/monitors.py
RULE = ("Operands are built from run specifications (unique letters per position, distinct "
        "formatting per run, empty runs and no-run values included). The real operation is "
        "executed and its per-character cell list is compared with the same Python list "
        "operation on the operands' cell lists. Enumerated: every run layout up to the bound x "
        "every slice bound pair and index in [-len-2, len+2] + None; all layout pairs for +; "
        "repeat counts 0..3; joins of 0..3 items. distinct = distinct (operation, operands, "
        "arguments); non-trivial = the operand has at least one character.")
FLOOR = 2000
SHARDS = {"thorough": 16}
ASSUMPTIONS = ["cells are observed through str() + SGR interpreter (C01 is the root of trust)",
               "slice steps are not generated (NotImplementedError by design)"]


def operand(x):
    return x if isinstance(x, str) else obs.build(x)


def op_cells(x):
    return obs.observe(x) if isinstance(x, str) else obs.spec_cells(x)


def classify_slice(case):
    b = [case.get("start"), case.get("stop"), case.get("i")]
    if any(isinstance(x, int) and x < 0 for x in b):
        return "C06:negative-bound"
    return "C06:slice"


def run_case(ctx, case):
    op = case["op"]
    try:
        _run_case(ctx, case, op)
    except obs.ObservationFailed as e:
        ctx.judge(False, case, mech="C06:incoherent-result", got=str(e))


def _run_case(ctx, case, op):
    from curtsies.formatstring import FmtStr
    if op == "iterate":
        # a FmtStr is iterated through the sequence protocol (f[0], f[1], ... until IndexError):
        # it must yield exactly its characters, like iterating its text
        spec = case["spec"]
        A = obs.spec_cells(spec)
        f = obs.build(spec)
        try:
            items = []
            for x in f:
                items.append(x)
                if len(items) > len(A) + 3:
                    break
            got = [obs.cells(x) for x in items]
        except Exception as e:  # noqa
            ctx.judge(False, case, mech="C06:iteration", expected=len(A), got=repr(e), nontrivial=bool(A))
            return
        ok = got == [[c] for c in A]
        try:
            f[len(A)]
            past_end_raises = False
        except IndexError:
            past_end_raises = True
        except Exception:  # noqa
            past_end_raises = False
        ctx.judge(ok and past_end_raises, case, mech="C06:iteration", expected=[obs.show([c]) for c in A],
                  got=[obs.show(g) for g in got], detail={"f[len(f)] raises IndexError": past_end_raises},
                  nontrivial=bool(A))
        return
    if op == "sequence":
        # several slices / indexes of ONE object, one after the other
        spec = case["spec"]
        A = obs.spec_cells(spec)
        f = obs.build(spec)
        for a, b in case["slices"]:
            want = A[a:b]
            try:
                r = f[a:b]
            except Exception as e:  # noqa
                ctx.judge(False, case, mech="C06:slice-sequence", expected=obs.show(want), got=repr(e))
                return
            problems, got = obs.result_problems(r, want)
            if problems:
                ctx.judge(False, case, mech="C06:slice-sequence", expected=obs.show(want),
                          got=obs.show(got) if got is not None else None, detail=[[a, b]] + problems)
                return
        ctx.judge(True, case, nontrivial=bool(A))
        return
    if op in ("slice", "index"):
        spec = case["spec"]
        if case.get("twin_first"):
            # the same operation first on a value that renders identically but has other run
            # boundaries: nothing learnt about one may be applied to the other
            _run_case(ctx, dict(case, spec=case["twin_first"], twin_first=None), op)
        A = obs.spec_cells(spec)
        f = obs.build(spec)
        text = obs.text_of(A)
        if op == "slice":
            sl = slice(case["start"], case["stop"])
            want = A[sl]
            mech = classify_slice(case)
            try:
                r = f[sl]
            except Exception as e:  # noqa
                ctx.judge(False, case, mech=mech, expected=obs.show(want), got=repr(e),
                          nontrivial=bool(A))
                return
        else:
            i = case["i"]
            mech = classify_slice(case)
            try:
                want = [A[i]]
                text[i]
            except IndexError:
                # str raises: the property defines the result only where str has one
                try:
                    f[i]
                    ctx.count("index_out_of_range_no_raise")
                except IndexError:
                    ctx.count("index_out_of_range_raises")
                except Exception:
                    ctx.count("index_out_of_range_other_exception")
                return
            try:
                r = f[i]
            except Exception as e:  # noqa
                ctx.judge(False, case, mech=mech, expected=obs.show(want), got=repr(e),
                          nontrivial=bool(A))
                return
        problems, got = obs.result_problems(r, want)
        ctx.judge(not problems, case, mech=mech, expected=obs.show(want),
                  got=obs.show(got) if got is not None else None, detail=problems, nontrivial=bool(A))
        # the operand is unchanged
        if obs.cells(f) != A:
            ctx.judge(False, case, mech="C06:operand-changed", expected=obs.show(A),
                      got=obs.show(obs.cells(f)))
    elif op == "add":
        a, b = case["a"], case["b"]
        want = op_cells(a) + op_cells(b)
        if isinstance(a, str) and isinstance(b, str):
            return
        va, vb = operand(a), operand(b)
        if case.get("same_object") and a == b:
            vb = va
        try:
            if case.get("augmented") and not isinstance(va, str):
                r = va
                r += vb                 # a += b : same value as a + b, and `a` itself untouched
            else:
                r = va + vb
        except Exception as e:  # noqa
            ctx.judge(False, case, mech="C06:add", expected=obs.show(want), got=repr(e))
            return
        problems, got = obs.result_problems(r, want)
        ctx.judge(not problems, case, mech="C06:add", expected=obs.show(want),
                  got=obs.show(got) if got is not None else None, detail=problems, nontrivial=bool(want))
        for v, d in ((va, a), (vb, b)):
            if not isinstance(v, str) and obs.cells(v) != op_cells(d):
                ctx.judge(False, case, mech="C06:operand-changed", expected=obs.show(op_cells(d)),
                          got=obs.show(obs.cells(v)))
    elif op == "mul":
        A = obs.spec_cells(case["spec"])
        want = A * case["n"]
        f = obs.build(case["spec"])
        try:
            r = f * case["n"]
        except Exception as e:  # noqa
            ctx.judge(False, case, mech="C06:mul", expected=obs.show(want), got=repr(e))
            return
        problems, got = obs.result_problems(r, want)
        ctx.judge(not problems, case, mech="C06:mul", expected=obs.show(want),
                  got=obs.show(got) if got is not None else None, detail=problems, nontrivial=bool(want))
        if obs.cells(f) != A:
            ctx.judge(False, case, mech="C06:operand-changed", expected=obs.show(A), got=obs.show(obs.cells(f)))
    elif op == "long_chain":
        # hundreds of unobserved concatenations / a large repeat count, looked at only at the end,
        # as building up a screenful of output does: same text and length as str gives
        n = case["n"]
        a, b = obs.build(case["a"]), obs.build(case["b"])
        ta, tb = "".join(t for t, _ in case["a"]), "".join(t for t, _ in case["b"])
        try:
            f = a
            for _ in range(n):
                f = f + b
            g = b * n
            got = [len(f), f.s == ta + tb * n, len(g), g.s == tb * n, f[len(ta) + len(tb) * (n - 1):].s if n else ta]
        except Exception as e:  # noqa
            got = repr(e)[:200]
        want = [len(ta) + len(tb) * n, True, len(tb) * n, True, tb if n else ta]
        ctx.judge(got == want, case, ("C06", "chain", n, ta, tb), "C06:long-chain", want, got)
    elif op == "join_markup":
        # plain-str items that happen to hold an escape sequence are text like any other (that is
        # what + does with them); judged on the result's text and length only
        sep, items = case["sep"], case["items"]
        vsep = obs.build(sep)
        want = "".join(t for t, _ in sep).join(items)
        try:
            r = vsep.join(list(items))
            got = [r.s, len(r)]
        except Exception as e:  # noqa
            got = repr(e)
        plus = vsep.copy()
        acc = None
        for it in items:
            acc = it if acc is None else acc + plus + it
        ctx.judge(got == [want, len(want)], case, ("C06", "join_markup", repr(case)), "C06:join-parses-plain-str-as-markup",
                  [want, len(want)], got, "a + sep + b gives %r" % (getattr(acc, "s", acc),))
    elif op == "join":
        sep, items = case["sep"], case["items"]
        S = obs.spec_cells(sep)
        want = []
        for k, it in enumerate(items):
            if k:
                want += S
            want += op_cells(it)
        vsep = obs.build(sep)
        vitems = []
        for k, it in enumerate(items):
            # the same object may be listed more than once (case["alias"] = [[i, j], ...])
            src = next((j for i, j in case.get("alias", []) if i == k), None)
            vitems.append(vitems[src] if src is not None and src < k and items[src] == it else operand(it))
        arg = vitems
        how = case.get("iterable", "list")
        if how == "tuple":
            arg = tuple(vitems)
        elif how == "iter":
            arg = iter(vitems)
        elif how == "generator":
            arg = (x for x in vitems)
        try:
            r = vsep.join(arg)
        except Exception as e:  # noqa
            ctx.judge(False, case, mech="C06:join", expected=obs.show(want), got=repr(e))
            return
        problems, got = obs.result_problems(r, want)
        ctx.judge(not problems, case, mech="C06:join", expected=obs.show(want),
                  got=obs.show(got) if got is not None else None, detail=problems, nontrivial=bool(want))
        for v, d in [(vsep, sep)] + list(zip(vitems, items)):
            if not isinstance(v, str) and obs.cells(v) != op_cells(d):
                ctx.judge(False, case, mech="C06:operand-changed", expected=obs.show(op_cells(d)),
                          got=obs.show(obs.cells(v)))
                break
    else:
        raise ValueError(op)


def run(ctx):
    quick = ctx.quick
    lays = list(obs.layouts(3, 2)) if quick else list(obs.layouts(4, 3))
    ctx.notes["layouts"] = len(lays)
    n = 0
    for lens in lays:
        spec = obs.spec_for_lengths(lens)
        L = sum(lens)
        bounds = [None] + list(range(-L - 2, L + 3))
        for a in bounds:
            for b in bounds:
                n += 1
                if ctx.mine(n):
                    run_case(ctx, {"op": "slice", "spec": spec, "start": a, "stop": b})
                    ctx.count("slices")
        for i in range(-L - 2, L + 3):
            n += 1
            if ctx.mine(n):
                run_case(ctx, {"op": "index", "spec": spec, "i": i})
                ctx.count("indexes")
        for k in range(4):
            n += 1
            if ctx.mine(n):
                run_case(ctx, {"op": "mul", "spec": spec, "n": k})
                ctx.count("muls")
        n += 1
        if ctx.mine(n):
            run_case(ctx, {"op": "iterate", "spec": spec})
            ctx.count("iterations")
    if ctx.shard[0] == 0:
        for items in (["\x1b[31mhi", "x"], ["\x1b[31m"], ["a\x1b[2Jb", "c"], ["p", "q\x1b[0m"]):
            run_case(ctx, {"op": "join_markup", "sep": [[", ", {"fg": 32}]], "items": items})
            run_case(ctx, {"op": "join_markup", "sep": [[" | ", {}]], "items": items})        # nothing formatted anywhere
            run_case(ctx, {"op": "join_markup", "sep": [["", {}]], "items": items + ["caf\x9b au lait"]})
            ctx.count("joins_of_plain_str_with_escape_sequences")
    if ctx.shard[0] == 0:
        for n in (300, 1200, 2500):
            run_case(ctx, {"op": "long_chain", "n": n, "a": [["ab", {"fg": 31}]], "b": [["c", {"bold": True}], ["d", {}]]})
    small = list(obs.layouts(3, 2)) if not quick else list(obs.layouts(2, 2))
    strs = ["", "x", "xy"]
    for la in small:
        sa = obs.spec_for_lengths(la)
        for lb in small:
            n += 1
            if not ctx.mine(n):
                continue
            sb = obs.spec_for_lengths(lb, first_letter=13, palette_offset=5)
            run_case(ctx, {"op": "add", "a": sa, "b": sb})
            run_case(ctx, {"op": "add", "a": sa, "b": sb, "augmented": True})
            ctx.count("adds", 2)
        n += 1
        if ctx.mine(n):
            run_case(ctx, {"op": "add", "a": sa, "b": sa, "same_object": True})
        for s in strs:
            n += 1
            if ctx.mine(n):
                run_case(ctx, {"op": "add", "a": sa, "b": s})
                run_case(ctx, {"op": "add", "a": s, "b": sa})
                ctx.count("adds_with_str", 2)
    ctx.exhaustive = True
    rng = ctx.rng
    pal = obs.PALETTE
    for _ in range(ctx.share(1500 if quick else 300000)):
        sep = obs.rand_spec(rng, 2, 2, "-,", palette=pal)
        items = []
        for _ in range(rng.randint(0, 3)):
            items.append(rng.choice(strs) if rng.random() < .4
                         else obs.rand_spec(rng, 3, 2, "abc", palette=pal))
        case = {"op": "join", "sep": sep, "items": items,
                "iterable": rng.choice(["list", "list", "tuple", "iter", "generator"])}
        if len(items) >= 2 and rng.random() < .3:
            j = rng.randrange(len(items) - 1)
            items[-1] = items[j]
            case["alias"] = [[len(items) - 1, j]]
        run_case(ctx, case)
        ctx.count("joins")
    for _ in range(ctx.share(3000 if quick else 600000)):
        spec = obs.rand_spec(rng, 6, 5, rng.choice(["abcdefg一\n", "abé́‍​一"]), palette=pal)
        L = sum(len(t) for t, _ in spec)
        c = lambda: rng.choice([None, rng.randint(-L - 2, L + 2)])
        case = {"op": "slice", "spec": spec, "start": c(), "stop": c()}
        tw = obs.twin(spec, rng)
        if tw is not None and rng.random() < .5:
            case["twin_first"] = tw
        run_case(ctx, case)
        if L and rng.random() < .3:
            sl = []
            for _ in range(rng.randint(2, 4)):
                a = rng.randint(0, L)
                sl.append([a, rng.randint(a, L + 1)])
            run_case(ctx, {"op": "sequence", "spec": spec, "slices": sl})
            ctx.count("slice_sequences")
        run_case(ctx, {"op": "index", "spec": spec, "i": rng.randint(-L - 2, L + 2)})
        ctx.count("random_slices")
