"""C19 - equality, hashing and repr of FmtStr are coherent with what it displays."""
from .. import obs

LEVEL = "exploration"
SUITE_MONITOR = True      # also judge the repository's own tests/doctests through rv/monitors.py
RULE = ("A pool of FmtStr values engineered to contain same text / different formatting, same "
        "display / different run boundaries, empty runs, no-run values, False-valued attributes, "
        "quotes, backslashes, newlines and wide characters, plus seeded random values. ALL "
        "ordered pairs of the pool are compared on the real objects: (a == b) must equal "
        "(str(a) == str(b)), != must be the negation, equal values must hash equal and be "
        "interchangeable as set members / dict keys; every value is compared with plain strs "
        "(its terminal string, its text, an unrelated one) in both operand orders; "
        "eval(repr(f)) in the fmtfuncs namespace must have f's cells for every value with a run. "
        "distinct = distinct ordered pairs (by terminal strings) / distinct reprs; non-trivial = "
        "the two values differ as objects.")
FLOOR = 1000
SHARDS = {"thorough": 16}
ASSUMPTIONS = ["text free of ESC/0x9B (repr() of such text would be re-parsed as escape sequences by fmtstr)"]

TEXTS = ["", "a", "ab", "a'b", 'a"b', "a\\b", "a\nb", "一", " ", "b", "'", "\\n", "a\tb"]
FMTS = [{}, {"fg": 31}, {"fg": 32}, {"bg": 41}, {"bold": True}, {"bold": False},
        {"fg": 31, "bold": True}, {"underline": True, "bg": 44, "fg": 37},
        {"invert": True, "dark": True, "italic": True, "blink": True}, {"fg": 31, "italic": False}]
# a style switched on with a truthy value other than True (accepted as on, or refused with
# ValueError: then the value is left out of the pool)
FMTS_TRUTHY = [{"bold": 1}, {"underline": 2, "fg": 31}]


def build(spec):
    try:
        return obs.build(spec)
    except ValueError:
        if any(v is not True and v is not False and k in obs.STYLES for _, a in spec for k, v in a.items()):
            return None
        raise


def pool_specs(rng, size):
    specs = [[]]
    for t in TEXTS:
        for a in FMTS:
            specs.append([[t, dict(a)]])
    for a in FMTS_TRUTHY:
        specs.append([["ab", dict(a)]])
        specs.append([["a", dict(a)], ["b", {"fg": 32}]])
    # same display, different run boundaries / empty runs
    for a in FMTS[:6]:
        specs.append([["a", dict(a)], ["b", dict(a)]])
        specs.append([["", dict(a)], ["ab", dict(a)]])
        specs.append([["ab", dict(a)], ["", {}]])
        specs.append([["a", dict(a)], ["b", {"fg": 32}]])
        specs.append([["a", {}], ["b", dict(a)]])
    while len(specs) < size:
        specs.append(obs.rand_spec(rng, 3, 2, ["a", "b", "'", "\n", "一"], palette=FMTS))
    return specs[:size]


def run_case(ctx, case):
    kind = case["kind"]
    if kind == "pair":
        a, b = build(case["a"]), build(case["b"])
        if a is not None and b is not None:
            judge_pair(ctx, case, a, b)
    elif kind == "str":
        a = build(case["a"])
        if a is not None:
            judge_str(ctx, case, a, case["s"])
    elif kind == "first-use-interrupted":
        a = obs.build(case["a"], warm=False)
        obs.touch_interrupted(a, case["k"])
        judge_pair(ctx, case, a, obs.build(case["a"], warm=False))
        judge_repr(ctx, case, a, obs.spec_cells(case["a"]))
    elif kind == "repr":
        a = build(case["a"])
        if a is not None:
            judge_repr(ctx, case, a, obs.spec_cells(case["a"]))


def judge_pair(ctx, case, a, b):
    # "produce the same terminal string": produced afresh from the runs (a copy shares the
    # runs but no memo), so a stale memoised string cannot vouch for itself
    sa, sb = str(a.copy()), str(b.copy())
    want = sa == sb
    sig = ("C19", "pair", sa, sb)
    problems = []
    try:
        eq, ne = (a == b), (a != b)
        if eq is not want:
            problems.append("== gives %r, terminal strings %s" % (eq, "equal" if want else "differ"))
        if ne is not (not eq):
            problems.append("!= is not the negation of ==")
        if eq and hash(a) != hash(b):
            problems.append("equal values hash differently")
        if (b in {a}) is not bool(eq):
            problems.append("set membership disagrees with ==")
        if ({a: 1}.get(b) == 1) is not bool(eq):
            problems.append("dict lookup disagrees with ==")
    except Exception as ex:  # noqa
        problems.append(repr(ex))
    ctx.judge(not problems, case, sig, "C19:eq-hash", detail=problems, nontrivial=a is not b)


def judge_str(ctx, case, a, s):
    want = str(a.copy()) == s
    problems = []
    try:
        r1, r2 = (a == s), (s == a)
        if r1 is not want:
            problems.append("f == s gives %r" % (r1,))
        if r2 is not want:
            problems.append("s == f gives %r" % (r2,))
        if (a != s) is not (not want) or (s != a) is not (not want):
            problems.append("!= with a str is not the negation")
        if want and hash(a) != hash(s):
            problems.append("equal str hashes differently")
    except Exception as ex:  # noqa
        problems.append(repr(ex))
    ctx.judge(not problems, case, ("C19", "str", str(a), s), "C19:eq-str", expected=want,
              detail=problems)


_NS = None


def judge_repr(ctx, case, a, A):
    global _NS
    if _NS is None:
        import curtsies.fmtfuncs as ff
        _NS = {k: getattr(ff, k) for k in dir(ff) if not k.startswith("_")}
        _NS["__builtins__"] = {}
    try:
        r = repr(a)
        v = eval(r, dict(_NS))
        from curtsies.formatstring import FmtStr
        if isinstance(v, str):
            got = obs.observe(v)      # an unformatted single run reprs as a plain literal
        else:
            got = obs.cells(v)
        ok = got == A
        ctx.judge(ok, case, ("C19", "repr", r), "C19:repr", obs.show(A), [r, obs.show(got)])
        if ok:
            # ... and it displays as f displays
            from ..model import sgr
            shown_f, shown_v = sgr.interpret(str(a))[0], sgr.interpret(str(v))[0]
            if shown_f != shown_v:
                ctx.judge(False, case, ("C19", "repr-display", r), "C19:repr-displays-differently",
                          obs.show(shown_f), [r, obs.show(shown_v)])
    except Exception as ex:  # noqa
        ctx.judge(False, case, mech="C19:repr", expected=obs.show(A), got=repr(ex))


def run(ctx):
    size = 400 if ctx.quick else 3000
    specs = pool_specs(ctx.rng.__class__(ctx.seed), size)
    values = [build(s) for s in specs]
    specs = [s for s, v in zip(specs, values) if v is not None]
    values = [v for v in values if v is not None]
    ctx.notes["pool_size"] = len(values)
    n = 0
    for i, a in enumerate(values):
        for j, b in enumerate(values):
            n += 1
            if not ctx.mine(n):
                continue
            case = {"kind": "pair", "a": specs[i], "b": specs[j]}
            judge_pair(ctx, case, a, b)
            ctx.count("ordered_pairs")
    ctx.exhaustive = True
    # values one of whose runs holds an already rendered string (f + str(g)): they display
    # like the properly built value and must compare and hash accordingly
    from curtsies.formatstring import fmtstr as _fmtstr
    raw = []
    for i in range(0, min(len(values), 120), 3):
        if specs[i] and specs[(i + 1) % len(specs)]:
            head, tail = values[i], values[(i + 1) % len(values)]
            raw.append((head + tail, obs.touch(head + str(tail)) if i % 2 else head + str(tail)))
    for k, (proper, pre) in enumerate(raw):
        if ctx.mine(k):
            judge_pair(ctx, {"kind": "prerendered", "i": k}, proper, pre)
            judge_pair(ctx, {"kind": "prerendered", "i": k}, pre, proper)
            obs.touch(proper)
            obs.touch(pre)
            judge_pair(ctx, {"kind": "prerendered-after-use", "i": k}, proper, pre)
            ctx.count("prerendered_pairs")
    for i, a in enumerate(values):
        if not ctx.mine(i):
            continue
        canon = str(a.copy())
        for s in (str(a), a.s, "unrelated", "", canon.replace("\x1b[39m", "\x1b[0m"),
                  canon.replace("\x1b[0m", "\x1b[m"), canon + "\x1b[0m"):
            judge_str(ctx, {"kind": "str", "a": specs[i], "s": s}, a, s)
            ctx.count("str_comparisons")
        if specs[i]:
            judge_repr(ctx, {"kind": "repr", "a": specs[i]}, a, obs.spec_cells(specs[i]))
            ctx.count("reprs")
    # values whose first use was cut short - by a Ctrl-C or by a failed allocation - at the k-th
    # statement, for every k: they compare, hash and repr like a twin that was never disturbed
    for i, spec in enumerate(specs[:40 if ctx.quick else 400]):
        if not spec or not ctx.mine(i):
            continue
        for k in range(1, 31):
            a = obs.build(spec, warm=False)
            obs.touch_interrupted(a, k)
            case = {"kind": "first-use-interrupted", "a": spec, "k": k}
            judge_pair(ctx, case, a, obs.build(spec, warm=False))
            judge_repr(ctx, case, a, obs.spec_cells(spec))
            ctx.count("values_with_interrupted_first_use")
    rng = ctx.rng
    for _ in range(ctx.share(2000 if ctx.quick else 500000)):
        spec = obs.rand_spec(rng, 4, 3, ["a", "b", "'", '"', "\\", "\n", "一", " ", "\t"])
        if spec:
            judge_repr(ctx, {"kind": "repr", "a": spec}, obs.build(spec), obs.spec_cells(spec))
            ctx.count("random_reprs")
