"""C18 - cursor position query parses the report exactly; movement is conserved."""
import random
import re

from .. import obs, plumbing
from ..model import term as tm

LEVEL = "exploration"
RULE = ("Part 1: CursorAwareWindow.get_cursor_position is executed against a scripted in_stream "
        "holding extra + report + trailing, report = (ESC[ | 0x9B) row ; col R with row/col "
        "1..9999, extra and trailing built from keypresses, escape sequences and look-alike "
        "fragments (ESC[, ESC[12, 1;2, R, ;, 0x9B, digits), reads failing with OSError at scripted "
        "positions 0-5 times; judged: returned (row-1, col-1), extra_bytes_callback called exactly "
        "once with exactly extra encoded (not at all when extra is empty), ValueError without a "
        "callback and non-empty extra, characters consumed = len(extra + report), trailing left "
        "unread. Part 2: histories on the reference terminal: render, then the harness moves the "
        "cursor by d rows (as a terminal does on resize) and resizes, then "
        "get_cursor_vertical_diff(); in 30% a second movement plus a NESTED "
        "get_cursor_vertical_diff() is injected from inside the scripted read; judged: change of "
        "top_usable_row + sum of returned values = observed movement since the last render/query. "
        "distinct = distinct (extra, report, trailing, failures) / distinct (size, origin, "
        "movements); non-trivial = extra or trailing non-empty / movement non-zero.")
FLOOR = 1000
SHARDS = {"thorough": 16}
ASSUMPTIONS = ["extra does not itself contain a complete report (no parser could tell them apart)",
               "in_stream.encoding utf-8 or latin-1 so that 0x9B is encodable"]

FRAGMENTS = ["a", "b", "q", " ", "\n", "\t", "\x1b", "\x1b[", "\x1b[12", "1;2", "R", ";", "\x9b", "\x9b7",
             "7", "12;", "\x1b[A", "\x1b[1;5C", "\x1bOP", "\x1b[5~", "é", "0", "\x1b[;R", "\x1b[3R", "\x9bR",
             "\x1b[٣;٤R", "\x1b[1;２R"]
REPORT = re.compile(r"(\x1b\[|\x9b)[0-9]+;[0-9]+R")      # ASCII digits: only those make a report


def gen_parse(rng):
    while True:
        extra = "".join(rng.choice(FRAGMENTS) for _ in range(rng.choice([0, 0, 1, 2, 3, 5])))
        if not REPORT.search(extra):
            break
    trailing = "".join(rng.choice(FRAGMENTS + ["\x1b[3;4R"]) for _ in range(rng.choice([0, 0, 1, 2, 4])))
    row = rng.choice([1, 2, 9, 10, 24, 99, 100, 9999, rng.randint(1, 9999)])
    col = rng.choice([1, 2, 9, 10, 80, 99, 100, 9999, rng.randint(1, 9999)])
    csi = rng.choice(["\x1b[", "\x1b[", "\x9b"])
    nfail = rng.choice([0, 0, 0, 1, 2, 5])
    total_reads = len(extra) + len(csi) + len("%d;%dR" % (row, col))
    fails = sorted(rng.randrange(total_reads + nfail) for _ in range(nfail))
    case = {"kind": "parse", "extra": extra, "csi": csi, "row": row, "col": col, "trailing": trailing,
            "fail_at": fails, "callback": rng.random() < .75,
            "encoding": rng.choice(["utf-8", "latin-1"])}
    if any(ord(ch) > 255 for ch in extra + trailing):
        case["encoding"] = "utf-8"
    if case["encoding"] == "utf-8" and csi != "\x9b" and "\x9b" not in extra and rng.random() < .15:
        # sys.stdin decodes with errors="surrogateescape": a typed-ahead byte that is not valid
        # UTF-8 reaches the window as a lone surrogate and stands for exactly that byte
        case["errors"] = "surrogateescape"
        k = rng.randint(0, len(extra))
        case["extra"] = extra[:k] + rng.choice(["\udce1", "\udcff\udc80", "\udc9b", "\udc9b1;2"]) + extra[k:]
    return case


class ParseRig:
    """one entered CursorAwareWindow reused for many parse cases"""

    def __init__(self, with_callback=True):
        from curtsies import CursorAwareWindow
        self.inp = plumbing.ScriptedIn("utf-8")
        self.term = tm.Term(5, 20, reply=self.inp.push)
        self.out = plumbing.TeeOut(5, 20, sink=self.term.feed)
        self.calls = []
        if with_callback:
            self.w = CursorAwareWindow(self.out, self.inp, extra_bytes_callback=self.calls.append)
        else:
            self.w = CursorAwareWindow(self.out, self.inp)
        self.w.__enter__()
        self.term.reply = None        # from now on the harness scripts the replies itself

    def close(self):
        try:
            self.w.__exit__(None, None, None)
        finally:
            self.out.close()
            self.inp.close()


_RIG = [None, None]


def rig(with_callback=True):
    i = 0 if with_callback else 1
    if _RIG[i] is None:
        _RIG[i] = ParseRig(with_callback)
    return _RIG[i]


def run_parse(ctx, case):
    r = rig(case["callback"])
    inp, w = r.inp, r.w
    extra, trailing = case["extra"], case["trailing"]
    report = "%s%d;%dR" % (case["csi"], case["row"], case["col"])
    inp.encoding = case["encoding"]
    inp.errors = case.get("errors", "strict")
    inp.q = extra + report + trailing
    inp.consumed = 0
    inp.reads = 0
    nreads = len(extra + report) + len(case["fail_at"])
    plan = [False] * (nreads + 2)
    for i in case["fail_at"]:
        if i < len(plan):
            plan[i] = True
    inp.fail_plan = plan
    del r.calls[:]
    del r.out.log[:]
    sig = ("C18", extra, report, trailing, tuple(case["fail_at"]), case["callback"], case["encoding"], case.get("errors"))
    nontrivial = bool(extra or trailing)
    problems = []
    want = (case["row"] - 1, case["col"] - 1)
    try:
        got = w.get_cursor_position()
        exc = None
    except Exception as ex:  # noqa
        got, exc = None, ex
    if extra and not case["callback"]:
        if not isinstance(exc, ValueError):
            problems.append("no callback and extra input: expected ValueError, got %r" % (exc or got,))
    else:
        if exc is not None:
            problems.append("raised %r" % (exc,))
        elif got != want:
            problems.append("returned %r" % (got,))
        if extra:
            if r.calls != [extra.encode(case["encoding"], case.get("errors", "strict"))]:
                problems.append("callback calls %r" % (r.calls,))
        elif r.calls:
            problems.append("callback called without extra input: %r" % (r.calls,))
    if inp.consumed != len(extra + report):
        problems.append("consumed %d characters, extra+report is %d" % (inp.consumed, len(extra + report)))
    if inp.q != trailing:
        problems.append("unread remainder %r" % (inp.q,))
    if "".join(r.out.log).count("\x1b[6n") != 1:
        problems.append("query written %d times" % "".join(r.out.log).count("\x1b[6n"))
    unicode_lookalike = re.search(r"(\x1b\[|\x9b)\d+;\d+R", extra) is not None      # \d: any Unicode digit
    ctx.judge(not problems, case, sig, "C18:non-ascii-digits-taken-for-a-report" if unicode_lookalike else
              "C18:extra-bytes-undecodable-in-stream-encoding" if case.get("errors") else "C18:parse",
              [want, extra], [got, list(r.calls)], problems, nontrivial)
    inp.q = ""
    inp.fail_plan = []


class LineHook:
    """runs `action` once, when the k-th statement of `func` starts (sys.monitoring LINE events local
    to that code object) - where a signal handler could run"""

    def __init__(self, func, k, action):
        import sys
        self.mon, self.code, self.k, self.action = sys.monitoring, func.__code__, k, action
        self.n, self.fired, self.tool = 0, False, None

    def install(self):
        for tid in (4, 3, self.mon.PROFILER_ID):
            try:
                self.mon.use_tool_id(tid, "c18-linehook")
                self.tool = tid
                break
            except ValueError:
                continue
        if self.tool is None:
            return
        self.mon.register_callback(self.tool, self.mon.events.LINE, self._on_line)
        self.mon.set_local_events(self.tool, self.code, self.mon.events.LINE)

    def _on_line(self, code, line):
        if code is not self.code or self.fired:
            return None
        self.n += 1
        if self.n == self.k:
            self.fired = True
            self.action()
        return None

    def uninstall(self):
        if self.tool is not None:
            self.mon.set_local_events(self.tool, self.code, 0)
            self.mon.register_callback(self.tool, self.mon.events.LINE, None)
            self.mon.free_tool_id(self.tool)
            self.tool = None


def gen_history(rng):
    rows, cols = rng.randint(2, 8), rng.randint(3, 6)
    steps = []
    for _ in range(rng.randint(1, 5)):
        steps.append({"h": rng.random(), "tall": rng.random() < .3, "len": rng.random(), "cursor": rng.random(), "d": rng.random(),
                      "nested": rng.random() < .3, "d2": rng.random(), "extra_query": rng.random() < .2,
                      "d3": rng.random(), "failed_first": rng.random() < .15,
                      "nested_at_statement": rng.choice([0, 0, 2, 3, 4, 5, 6, 8]), "nested_twice": rng.random() < .4})
    case = {"kind": "history", "rows": rows, "cols": cols, "pre": rng.randint(0, rows - 1), "steps": steps}
    if rng.random() < .25:
        case["queries_before_first_render"] = [rng.random() for _ in range(rng.randint(1, 3))]
    return case


def pick(frac, lo, hi):
    """deterministic integer in [lo, hi] from a fraction"""
    if hi < lo:
        return lo
    return lo + min(hi - lo, int(frac * (hi - lo + 1)))


def run_history(ctx, case):
    from curtsies import CursorAwareWindow
    from curtsies.formatstring import fmtstr
    rows, cols = case["rows"], case["cols"]
    inp = plumbing.ScriptedIn("utf-8")
    term = tm.Term(rows, cols, reply=inp.push)
    arm_on_query = []

    def sink(data):
        if arm_on_query and "\x1b[6n" in data:
            inp.hook = arm_on_query.pop()
        term.feed(data)
    out = plumbing.TeeOut(rows, cols, sink=sink)
    try:
        for _ in range(case["pre"]):
            term.feed("h\r\n")
        with CursorAwareWindow(out, inp) as w:
            log = []
            had_failed = False
            if case.get("queries_before_first_render"):
                # the first query only establishes where the cursor is; every later one must
                # account for the movement since the previous query
                w.get_cursor_vertical_diff()
                for frac in case["queries_before_first_render"]:
                    d = pick(frac, -term.y, rows - 1 - term.y)
                    term.y += d
                    top0 = w.top_usable_row
                    ret = w.get_cursor_vertical_diff()
                    accounted = (w.top_usable_row - top0) + ret
                    ctx.judge(accounted == d, case, ("C18", "pre-render", rows, top0, d), "C18:movement-not-conserved",
                              d, accounted, {"before first render": True}, d != 0)
                    if accounted != d or not (0 <= w.top_usable_row < rows):
                        return
            for k, st in enumerate(case["steps"]):
                top = w.top_usable_row
                if not (0 <= top < rows):
                    break
                h = pick(st["h"], 0, rows - top + (3 if st.get("tall") else 0))
                arr = [fmtstr("x" * pick(st["len"], 0, cols)) for _ in range(h)]
                cp = (pick(st["cursor"], 0, max(0, h - 1)), 0)
                w.render_to_terminal(arr, cp)
                moves = [("d", st["d"])]
                if st["extra_query"]:
                    moves.append(("d3", st["d3"]))
                for name, frac in moves:
                    d = pick(frac, -term.y, rows - 1 - term.y)
                    term.y += d
                    # a resize accompanies the movement (and makes the next render start afresh)
                    cols = cols + 1 if cols % 2 else cols - 1
                    out.set_size(rows, cols)
                    term.resize(rows, cols)
                    top0 = w.top_usable_row
                    total = [d]
                    nested_ret = [0]
                    nested = st["nested"] and name == "d"
                    line_hook = None
                    if nested:
                        def hook():
                            d2 = pick(st["d3"] if hook.again else st["d2"], -term.y, rows - 1 - term.y)
                            term.y += d2
                            total[0] += d2
                            if st.get("nested_twice") and not hook.again:
                                # one more SIGWINCH while the query that the first one forced is waiting
                                # for its reply: armed when that next query is written
                                hook.again = True
                                arm_on_query.append(hook)
                            nested_ret[0] += w.get_cursor_vertical_diff()
                        hook.again = False
                        if st.get("nested_at_statement"):
                            # a SIGWINCH handler can run between any two statements: here at the k-th
                            # statement of the bookkeeping that follows the terminal's reply
                            once = getattr(type(w), "_get_cursor_vertical_diff_once", None)
                            if once is None:
                                # this tree organises the bookkeeping differently: the nested call
                                # arrives during a read instead (the variant above)
                                ctx.count("nested_at_statement_not_applicable")
                                inp.hook = hook
                            else:
                                line_hook = LineHook(once, st["nested_at_statement"], hook)
                                line_hook.install()
                        else:
                            inp.hook = hook
                    if st.get("failed_first") and not nested and st["d3"] < .4:
                        # a Ctrl-C (or sys.exit() from a signal handler) arrives while the query waits for
                        # the terminal's report; the application catches it, discards the late report
                        # and asks again: that query accounts for the whole movement
                        exc_class = KeyboardInterrupt if st["d3"] < .25 else SystemExit

                        def boom(exc_class=exc_class):
                            raise exc_class("while waiting for the cursor report")
                        inp.hook = boom
                        try:
                            w.get_cursor_vertical_diff()
                            failed = None
                        except exc_class:
                            failed = True
                        except Exception as ex:  # noqa
                            failed = repr(ex)
                        inp.hook = None
                        inp.q = ""
                        if failed is not True or w.top_usable_row != top0:
                            ctx.judge(False, case, ("C18", "hist-interrupted-query", rows, top0, d),
                                      "C18:interrupted-query", "the interrupt propagates, top_usable_row unchanged",
                                      [failed, w.top_usable_row, top0], {"step": k}, True)
                            return
                        ctx.count("interrupted_queries")
                        had_failed = True
                    elif st.get("failed_first") and not nested:
                        # a keypress typed ahead of the report and no extra_bytes_callback: the
                        # query raises ValueError (as the property prescribes) and accounts for
                        # nothing; the next query has to account for the whole movement
                        inp.push("k")
                        try:
                            w.get_cursor_vertical_diff()
                            failed = None
                        except ValueError:
                            failed = True
                        except Exception as ex:  # noqa
                            failed = repr(ex)
                        if failed is not True or w.top_usable_row != top0:
                            ctx.judge(False, case, ("C18", "hist-failed-query", rows, top0, d),
                                      "C18:movement-not-conserved-after-failed-query" if had_failed else "C18:failed-query",
                                      "ValueError, top_usable_row unchanged", [failed, w.top_usable_row, top0],
                                      {"step": k}, True)
                            return
                        ctx.count("failed_queries")
                        had_failed = True
                    try:
                        try:
                            ret = w.get_cursor_vertical_diff()
                        finally:
                            if line_hook is not None:
                                line_hook.uninstall()
                                ctx.count("nested_calls_between_statements", int(line_hook.fired))
                    except Exception as ex:  # noqa
                        ctx.judge(False, case, ("C18", "hist-raise", rows, top0, d, k),
                                  "C18:movement-not-conserved-after-failed-query" if had_failed else "C18:query-raises",
                                  "a cursor query answered by the terminal alone", repr(ex), {"step": k}, True)
                        return
                    accounted = (w.top_usable_row - top0) + ret + nested_ret[0]
                    log.append([h, cp[0], d, nested, top0, w.top_usable_row, ret, nested_ret[0]])
                    sig = ("C18", "hist", rows, top0, d, total[0], nested, h, cp[0], bool(st.get("failed_first")))
                    ctx.judge(accounted == total[0], case, sig, "C18:movement-not-conserved-after-failed-query"
                              if had_failed else "C18:movement-not-conserved", total[0],
                              accounted, {"step": k, "log": log[-3:]}, total[0] != 0)
                    if term.unknown:
                        ctx.inconclusive_because("reference terminal met an unknown sequence: %r" % (term.unknown[:3],))
                        return
                    if accounted != total[0]:
                        return
                    if not (0 <= w.top_usable_row < rows):
                        break
    finally:
        out.close()
        inp.close()


def run_case(ctx, case):
    if case["kind"] == "parse":
        run_parse(ctx, case)
    else:
        run_history(ctx, case)


def run(ctx):
    rng = ctx.rng
    for _ in range(ctx.share(20000 if ctx.quick else 2000000)):
        run_parse(ctx, gen_parse(rng))
        ctx.count("parses")
    for _ in range(ctx.share(2000 if ctx.quick else 300000)):
        run_history(ctx, gen_history(rng))
        ctx.count("histories")
    for i in (0, 1):
        if _RIG[i] is not None:
            _RIG[i].close()
            _RIG[i] = None
