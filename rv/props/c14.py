"""C14 - applying or removing formatting touches exactly the named attributes."""
import itertools

from .. import obs

LEVEL = "exploration"
SUITE_MONITOR = True      # also judge the repository's own tests/doctests through rv/monitors.py
RULE = ("A formatting specification = (fg in 8+none, bg in 8+none, each of 6 styles in "
        "True/False/unnamed): all 59049 in thorough, a seeded sample in quick. Each is applied to "
        "base values (plain str, unformatted FmtStr, uniformly formatted FmtStr with overlapping "
        "attributes, multi-run FmtStr with an empty run) through every spelling (keyword names, "
        "keyword numbers, positional names in shuffled order, chained style=, nested fmtfuncs in "
        "shuffled order, copy_with_new_atts); the result's cells must equal the attribute algebra "
        "on the base's cells and all spellings must be equal (cells and ==). Then "
        "new_with_atts_removed on random attribute subsets, copy_with_new_str on uniformly "
        "formatted values, shared_atts, and a catalogue of invalid specifications (must raise "
        "ValueError). distinct = distinct (base, specification, spelling); non-trivial = the "
        "specification names at least one attribute and the base has a character.")
FLOOR = 2000
SHARDS = {"thorough": 16}
ASSUMPTIONS = ["a non-bool value for a style keyword (bold='yes', bold=0) is recorded, not judged",
               "an attribute explicitly False and an absent attribute display the same and are the same to the oracle"]

COLORS = ["black", "red", "green", "yellow", "blue", "magenta", "cyan", "gray"]
BASES = {
    "str": "ab",
    "plain": [["ab", {}]],
    "uniform": [["xyz", {"fg": 32, "bold": True, "underline": True, "bg": 41}]],
    "multi": [["p", {"fg": 31}], ["", {"bg": 44}], ["qr", {"bold": True, "italic": False}],
              ["s", {"bg": 45, "blink": True, "fg": 36}]],
    "rendered": None,       # see base_value
}

INVALID = [
    [["rd"], {}], [["red", "blue"], {}], [[], {"fg": "red", "style": "blue"}],
    [["on_red", "on_blue"], {}], [[], {"fg": 99}], [[], {"bg": 31}], [[], {"fg": 41}],
    [[], {"colour": "red"}], [[1], {}], [[], {"fg": "on_red"}], [["on_rd"], {}],
    [[], {"style": "nope"}], [[], {"fg": None}], [[], {"bg": "on_blue"}], [[], {"fg": 0}],
    [[], {"bg": 48}], [[None], {}], [["bold", "red", "green"], {}], [[], {"bg": "blue", "style": "on_red"}],
    [["boldd"], {}], [[], {"underlined": True}], [["on_"], {}], [[""], {}],
]
# contradictory / mis-typed ones found by review of parse_args (a style named on and keyed off,
# colour values of a type that cannot name a colour)
INVALID += [[[], {"style": ""}], [[], {"style": 0}], [[], {"style": False}], [[], {"style": []}],
            [["bold"], {"bold": 0}], [[], {"style": "italic", "italic": 0}],
            [["bold"], {"bold": False}], [[], {"style": "underline", "underline": False}],
            [[], {"fg": [31]}], [[], {"bg": {}}], [[], {"fg": 31.5}], [[], {"fg": True}], [[], {"bg": b"blue"}]]
# names of a type that is not str but has str's methods or compares equal to one
INVALID += [[[b"red"], {}], [[b"bold"], {}], [[b"on_blue"], {}], [[], {"style": b"red"}],
            [[{"__fmtstr__": "red"}], {}], [[{"__fmtstr__": "bold"}], {}], [[], {"style": {"__fmtstr__": "on_blue"}}],
            [[["red"]], {}]]
# unusual but meaningful values: ValueError or the obvious meaning (see kind "lenient")
LENIENT = [[[], {"bold": 0}, {"bold": False}], [[], {"bold": None}, {"bold": False}], [[], {"underline": ""}, {"underline": False}],
           [[], {"bold": 1}, {"bold": True}], [[], {"italic": "yes"}, {"italic": True}],
           [[], {"fg": 31.0}, {"fg": "red"}], [[], {"bg": 44.0}, {"bg": "blue"}],
           [["bold"], {"bold": True}, {"bold": True}], [["red"], {"invert": 0}, {"fg": "red", "invert": False}]]
# upper/mixed-case names: the code lower-cases them for the membership test, so they are
# either valid (and must format) or invalid (ValueError); anything else is a violation
CASE_VARIANTS = [[["RED"], {}, {"fg": 31}], [["on_BLUE"], {}, {"bg": 44}], [["Red", "On_Blue"], {}, {"fg": 31, "bg": 44}],
                 [["BOLD"], {}, {"bold": True}], [[], {"style": "GREEN"}, {"fg": 32}]]


def specs_all():
    for fg in [None] + COLORS:
        for bg in [None] + COLORS:
            for combo in itertools.product((None, True, False), repeat=6):
                sp = {}
                if fg:
                    sp["fg"] = fg
                if bg:
                    sp["bg"] = bg
                for k, v in zip(obs.STYLES, combo):
                    if v is not None:
                        sp[k] = v
                yield sp


def apply_algebra(cells, sp):
    out = []
    for ch, fg, bg, st in cells:
        if "fg" in sp:
            fg = 30 + COLORS.index(sp["fg"])
        if "bg" in sp:
            bg = 40 + COLORS.index(sp["bg"])
        st = set(st)
        for s in obs.STYLES:
            if sp.get(s) is True:
                st.add(s)
            elif sp.get(s) is False:
                st.discard(s)
        out.append((ch, fg, bg, frozenset(st)))
    return out


def base_value(name):
    if name == "rendered":
        # a plain str holding the terminal string of a formatted value, more text after its reset
        spec = BASES["multi"] + [["uv", {"fg": 33, "bold": True}]]
        return str(obs.build(spec)) + "tail", obs.spec_cells(spec) + obs.observe("tail")
    b = BASES[name]
    if isinstance(b, str):
        return b, obs.observe(b)
    return obs.build(b), obs.spec_cells(b)


def spellings(base, sp, rng):
    from curtsies.formatstring import fmtstr
    import curtsies.fmtfuncs as ff
    num = dict(sp)
    if "fg" in num:
        num["fg"] = 30 + COLORS.index(num["fg"])
    if "bg" in num:
        num["bg"] = 40 + COLORS.index(num["bg"])
    pos = ([sp["fg"]] if "fg" in sp else []) + (["on_" + sp["bg"]] if "bg" in sp else []) + \
          [s for s in obs.STYLES if sp.get(s) is True]
    rng.shuffle(pos)
    false_kw = {s: False for s in obs.STYLES if sp.get(s) is False}
    pos2 = list(pos)
    rng.shuffle(pos2)

    def chained():
        g = base
        for p in pos:
            g = fmtstr(g, style=p)
        return fmtstr(g, **false_kw)

    def nested():
        g = base
        for p in pos2:
            g = getattr(ff, p)(g)
        return fmtstr(g, **false_kw)

    def cwna():
        g = base if not isinstance(base, str) else fmtstr(base)
        return g.copy_with_new_atts(**num)

    return [("kw-names", lambda: fmtstr(base, **sp)),
            ("kw-numbers", lambda: fmtstr(base, **num)),
            ("positional", lambda: fmtstr(base, *pos, **false_kw)),
            ("style=", chained),
            ("fmtfuncs", nested),
            ("copy_with_new_atts", cwna)]


def run_case(ctx, case):
    import random
    try:
        _run_case(ctx, case, random.Random(case.get("shuffle_seed", 0)))
    except obs.ObservationFailed as ex:
        ctx.judge(False, case, mech="C14:incoherent-result", got=str(ex))


def _run_case(ctx, case, rng):
    from curtsies.formatstring import FmtStr, fmtstr
    kind = case["kind"]
    if kind == "apply":
        base, B = base_value(case["base"])
        sp = case["spec"]
        want = apply_algebra(B, sp)
        results = []
        for name, fn in spellings(base, sp, rng):
            sig = ("C14", case["base"], tuple(sorted(sp.items())), name)
            try:
                r = fn()
                if case.get("shuffle_seed", 0) % 2:
                    r = fn()             # applied a second time to the same base: same result
            except Exception as ex:  # noqa
                ctx.judge(False, case, sig, "C14:apply", obs.show(want), repr(ex), name,
                          nontrivial=bool(sp))
                continue
            problems, got = obs.result_problems(r, want)
            ctx.judge(not problems, case, sig, "C14:apply", obs.show(want),
                      obs.show(got) if got is not None else None, [name] + problems,
                      nontrivial=bool(sp) and bool(B))
            results.append((name, r))
        for (n1, r1), (n2, r2) in zip(results, results[1:]):
            if not (r1 == r2) or str(r1) != str(r2):
                ctx.judge(False, case, mech="C14:spellings-differ", expected=repr(r1),
                          got=repr(r2), detail=[n1, n2])
        if not isinstance(base, str) and obs.cells(base) != B:
            ctx.judge(False, case, mech="C14:operand-changed")
    elif kind == "remove":
        base, B = base_value(case["base"])
        if isinstance(base, str):
            base = fmtstr(base)
        names = case["names"]
        want = [(ch, None if "fg" in names else fg, None if "bg" in names else bg,
                 frozenset(s for s in st if s not in names)) for ch, fg, bg, st in B]
        try:
            r = base.new_with_atts_removed(*names)
        except Exception as ex:  # noqa
            ctx.judge(False, case, mech="C14:remove", expected=obs.show(want), got=repr(ex))
            return
        problems, got = obs.result_problems(r, want)
        ctx.judge(not problems, case, mech="C14:remove", expected=obs.show(want),
                  got=obs.show(got) if got is not None else None, detail=problems, nontrivial=bool(names))
        if obs.cells(base) != B:
            ctx.judge(False, case, mech="C14:operand-changed")
    elif kind == "newstr":
        spec = case["fmt"]
        f = obs.build(spec)
        if case.get("onto_empty"):
            from curtsies.formatstring import fmtstr as _fmtstr
            f = _fmtstr("") + f          # as sum(parts, fmtstr('')) builds it: an empty, attribute-less first run
        if case.get("stray_empty_run") is not None and any(t for t, _ in spec):
            # a zero-length run formatted differently holds no character: the string is still
            # uniformly formatted and that run's formatting is nobody's
            from curtsies.formatstring import fmtstr as _fmtstr
            k, atts = case["stray_empty_run"]
            parts = [obs.build([r]) for r in spec]
            parts.insert(k % (len(parts) + 1), obs.build([["", atts]]))
            f = parts[0]
            for p_ in parts[1:]:
                f = f + p_
        F = obs.spec_cells(spec)
        new = case["new"]
        fmt = obs.spec_cells([["x", spec[0][1]]])[0][1:]     # all runs share these attributes
        want = [(ch,) + fmt for ch in new]
        try:
            r = f.copy_with_new_str(new)
        except Exception as ex:  # noqa
            ctx.judge(False, case, mech="C14:copy_with_new_str", expected=obs.show(want), got=repr(ex))
            return
        problems, got = obs.result_problems(r, want)
        ctx.judge(not problems, case, mech="C14:copy_with_new_str-takes-formatting-of-empty-run"
                  if case.get("stray_empty_run") is not None else "C14:copy_with_new_str", expected=obs.show(want),
                  got=obs.show(got) if got is not None else None, detail=problems)
        if obs.cells(f) != F:
            ctx.judge(False, case, mech="C14:operand-changed")
    elif kind == "helper-history":
        # a fmtfuncs helper called with extra keywords, then plainly: the second call knows nothing
        # of the first (also when the first was refused)
        import curtsies.fmtfuncs as _ff
        name, first_kw, atts = case["helper"], case["first_kwargs"], case["atts"]
        try:
            getattr(_ff, name)("a", **dict(first_kw))
        except ValueError:
            pass
        try:
            r = getattr(_ff, name)("ab")
        except Exception as ex:  # noqa
            ctx.judge(False, case, mech="C14:helper-remembers-earlier-call", got=repr(ex))
            return
        want = obs.spec_cells([["ab", atts]])
        problems, got = obs.result_problems(r, want)
        ctx.judge(not problems, case, ("C14", "helper-history", name, repr(first_kw)), "C14:helper-remembers-earlier-call",
                  obs.show(want), obs.show(got) if got is not None else None, problems)
    elif kind == "shared-no-runs":
        # a FmtStr without any run (f * 0, sep.join([]), FmtStr()): no character, so nothing shared
        from curtsies.formatstring import FmtStr as _F
        how = case["how"]
        try:
            f = {"mul0": lambda: obs.build([["ab", {"fg": 31}]]) * 0, "join": lambda: obs.build([[",", {"bold": True}]]).join([]),
                 "ctor": lambda: _F(), "splice": lambda: obs.build([["ab", {"fg": 31}]]).splice("", 0, 2)}[how]()
            sh = dict(f.shared_atts)
            ctx.judge(sh == {} or len(f) == 0 and all(not c for c in [f.s]), case, ("C14", "shared-no-runs", how),
                      "C14:shared_atts-on-value-without-runs", {}, sh)
        except Exception as ex:  # noqa
            ctx.judge(False, case, ("C14", "shared-no-runs", how), "C14:shared_atts-on-value-without-runs", {}, repr(ex))
    elif kind == "shared":
        spec = case["fmt"]
        f = obs.build(spec)
        F = obs.spec_cells(spec)
        try:
            sh = dict(f.shared_atts)
        except Exception as ex:  # noqa
            ctx.judge(False, case, mech="C14:shared_atts", got=repr(ex))
            return
        bad = []
        for k, v in sh.items():
            for ch, fg, bg, st in F:
                have = fg if k == "fg" else bg if k == "bg" else (k in st)
                if (k in ("fg", "bg") and have != v) or (k not in ("fg", "bg") and bool(v) != have):
                    bad.append((k, v, ch))
        ctx.judge(not bad, case, mech="C14:shared_atts", expected="only values every character has",
                  got=sh, detail=bad[:3], nontrivial=bool(F))
    elif kind == "invalid":
        def real(v):
            return fmtstr(v["__fmtstr__"]) if isinstance(v, dict) and "__fmtstr__" in v else v
        args, kwargs = [real(a) for a in case["args"]], {k: real(v) for k, v in case["kwargs"].items()}
        via_cwna = case.get("via") == "copy_with_new_atts"
        if case.get("first"):
            # an equal-looking but acceptable specification is used first (0 == False, 31 == 31.0):
            # what is decided about one must not be remembered for the other
            try:
                fmtstr("ab", *case["first"][0], **dict(case["first"][1]))
            except ValueError:
                pass
        for base in ("ab", obs.build([["ab", {"fg": 31}]])):
            try:
                if case.get("via", "").startswith("fmtfunc:"):
                    import curtsies.fmtfuncs as _ff
                    r = getattr(_ff, case["via"].split(":")[1])(base, **dict(kwargs))
                elif via_cwna:
                    r = (fmtstr(base) if isinstance(base, str) else base).copy_with_new_atts(**dict(kwargs))
                else:
                    r = fmtstr(base, *args, **dict(kwargs))
                falsy_style = any(k in obs.STYLES and v is not False and not v for k, v in kwargs.items())
                ctx.judge(False, case, mech="C14:copy_with_new_atts-unvalidated" if via_cwna else
                          "C14:style-named-and-given-a-falsy-value" if falsy_style else "C14:invalid-accepted",
                          expected="ValueError", got=repr(r))
            except ValueError:
                ctx.judge(True, case, ("C14", "invalid", repr(args), repr(kwargs), isinstance(base, str)))
            except Exception as ex:  # noqa
                ctx.judge(False, case, mech="C14:copy_with_new_atts-unvalidated" if via_cwna else "C14:invalid-other-exception",
                          expected="ValueError", got=repr(ex))
    elif kind == "casevariant":
        args, kwargs, atts = case["args"], case["kwargs"], case["atts"]
        want = obs.spec_cells([["ab", atts]])
        try:
            got = obs.cells(fmtstr("ab", *args, **dict(kwargs)))
            ctx.judge(got == want, case, mech="C14:case-variant-name", expected=obs.show(want),
                      got=obs.show(got))
        except ValueError:
            ctx.judge(True, case)
            ctx.count("case_variant_rejected_with_ValueError")
        except obs.ObservationFailed:
            raise
        except Exception as ex:  # noqa
            ctx.judge(False, case, mech="C14:case-variant-name",
                      expected="formatted result or ValueError", got=repr(ex))
    elif kind == "lenient":
        # a specification whose value has an unusual type: rejecting it with ValueError is right,
        # and so is accepting it with its obvious meaning (truthiness for a style, the number for
        # a colour) - but then the result has to display that meaning, coherently
        args, kwargs, meaning = case["args"], case["kwargs"], case["meaning"]
        for bname in ("plain", "red-bold"):
            spec = [["ab", {} if bname == "plain" else {"fg": 31, "bold": True}]]
            base = "ab" if bname == "plain" else obs.build(spec)
            via_cwna = case.get("via") == "copy_with_new_atts"
            try:
                if via_cwna:
                    r = (fmtstr(base) if isinstance(base, str) else base).copy_with_new_atts(**dict(kwargs))
                else:
                    r = fmtstr(base, *args, **dict(kwargs))
            except ValueError:
                ctx.judge(True, case, ("C14", "lenient", repr(args), repr(kwargs), bname, "rejected", via_cwna))
                ctx.count("unusual_value_rejected_with_ValueError")
                continue
            except Exception as ex:  # noqa
                ctx.judge(False, case, mech="C14:copy_with_new_atts-unvalidated" if via_cwna else "C14:invalid-other-exception",
                          expected="ValueError or a formatted result", got=repr(ex))
                continue
            want = apply_algebra(obs.spec_cells(spec), meaning)
            problems, got = obs.result_problems(r, want)
            ctx.judge(not problems, case, ("C14", "lenient", repr(args), repr(kwargs), bname, "accepted", via_cwna),
                      "C14:copy_with_new_atts-unvalidated" if via_cwna else "C14:unusual-value-accepted-with-wrong-effect",
                      obs.show(want),
                      obs.show(got) if got is not None else None, problems)
            ctx.count("unusual_value_accepted")
    else:
        raise ValueError(kind)


def run(ctx):
    rng = ctx.rng
    allspecs = list(specs_all())
    ctx.notes["specification_space"] = len(allspecs)
    if ctx.quick:
        chosen = [allspecs[i] for i in sorted(rng.sample(range(len(allspecs)), 1500))]
        # every single-attribute specification and the empty one are always included
        chosen += [sp for sp in allspecs if len(sp) <= 1]
    else:
        chosen = allspecs
        ctx.exhaustive = True
    n = 0
    for sp in chosen:
        n += 1
        if not ctx.mine(n):
            continue
        for b in BASES:
            run_case(ctx, {"kind": "apply", "base": b, "spec": sp, "shuffle_seed": n})
        ctx.count("specifications")
    names_all = ["fg", "bg"] + list(obs.STYLES)
    if ctx.shard[0] == 0:
        for k in range(len(names_all) + 1):
            for names in itertools.combinations(names_all, k):
                for b in BASES:
                    run_case(ctx, {"kind": "remove", "base": b, "names": list(names)})
                ctx.count("removal_sets")
        for a, kw in INVALID:
            run_case(ctx, {"kind": "invalid", "args": a, "kwargs": kw})
            ctx.count("invalid_catalogue")
        for a, kw, atts in CASE_VARIANTS:
            run_case(ctx, {"kind": "casevariant", "args": a, "kwargs": kw, "atts": atts})
        for a, kw, meaning in LENIENT:
            run_case(ctx, {"kind": "lenient", "args": a, "kwargs": kw, "meaning": meaning})
        for name, kw, atts in (("red", {"bold": True}, {"fg": 31}), ("bold", {"fg": "blue"}, {"bold": True}),
                               ("on_green", {"underline": True, "fg": 99}, {"bg": 42}), ("underline", {"bg": "red"}, {"underline": True})):
            run_case(ctx, {"kind": "helper-history", "helper": name, "first_kwargs": kw, "atts": atts})
        for how in ("mul0", "join", "ctor", "splice"):
            run_case(ctx, {"kind": "shared-no-runs", "how": how})
        # the same through copy_with_new_atts (keyword specifications only): unknown names and bad
        # values raise ValueError; colour names are either refused or mean what they mean in fmtstr
        for a, kw in INVALID:
            if not a and "style" not in kw:
                run_case(ctx, {"kind": "invalid", "args": a, "kwargs": kw, "via": "copy_with_new_atts"})
                ctx.count("invalid_catalogue_via_copy_with_new_atts")
        # a helper names its attribute; naming the same attribute again with another value is contradictory
        for fn, kw in (("red", {"fg": "blue"}), ("on_red", {"bg": 44}), ("bold", {"bold": False})):
            run_case(ctx, {"kind": "invalid", "args": [], "kwargs": kw, "via": "fmtfunc:" + fn})
            ctx.count("invalid_catalogue_via_fmtfuncs")
        for first, (a, kw) in (([["bold"], {"bold": 0}], [["bold"], {"bold": False}]),
                               ([[], {"fg": 31}], [[], {"fg": 31.5}]),
                               ([["red"], {}], [["red"], {"fg": "blue"}]),
                               ([[], {"bold": True, "fg": 31}], [[], {"bold": True, "fg": 41}])):
            run_case(ctx, {"kind": "invalid", "args": a, "kwargs": kw, "first": first})
        # and the whole catalogue once more, now that every valid spelling has been through the parser
        for a, kw in INVALID:
            run_case(ctx, {"kind": "invalid", "args": a, "kwargs": kw, "pass": 2})
        for kw, meaning in ([{"fg": "red"}, {"fg": "red"}], [{"bg": "blue", "bold": True}, {"bg": "blue", "bold": True}],
                            [{"fg": 31.0}, {"fg": "red"}], [{"bold": 0}, {"bold": False}]):
            run_case(ctx, {"kind": "lenient", "args": [], "kwargs": kw, "meaning": meaning, "via": "copy_with_new_atts"})
    for _ in range(ctx.share(3000 if ctx.quick else 400000)):
        a = obs.rand_atts(rng)
        runs = [["".join(rng.choice("abc") for _ in range(rng.randint(0, 3))), dict(a)]
                for _ in range(rng.randint(1, 3))]
        run_case(ctx, {"kind": "newstr", "fmt": runs, "new": rng.choice(["", "x", "hello", "一\n"]),
                       "onto_empty": rng.random() < .3,
                       "stray_empty_run": [rng.randrange(4), rng.choice(obs.PALETTE[1:])] if rng.random() < .25 else None})
        spec = obs.rand_spec(rng, 4, 3, "abc")
        if spec:
            run_case(ctx, {"kind": "shared", "fmt": spec})
        ctx.count("random_newstr_shared")
