"""End-to-end part of C03: the same byte streams through Input.send over a real pty.

Each read (one write to the pty master, fully arrived before the request) must come back as
exactly the keys the incremental get_key drive gives for that read - which ties
Input.find_key's one-byte-at-a-time loop and its full= computation to the decoder facts
judged in c03.py."""
from .. import keysengine, plumbing
from ..model.keys import Facts, drive_partial

ENC = {"ascii": "ascii", "latin-1": "latin-1", "utf-8": "utf-8"}


class Session:
    def __init__(self, encoding, mode, paste_threshold):
        import curtsies.input as ci
        self.ci = ci
        self.encoding, self.mode, self.pt = encoding, mode, paste_threshold
        self.pty = plumbing.Pty()
        self.inp = None
        self._pin = plumbing.PinnedEncoding(encoding)
        self.enter()

    def enter(self):
        self.inp = self.ci.Input(self.pty.stream, keynames=self.mode, paste_threshold=self.pt)
        self.inp.__enter__()

    def reset(self):
        try:
            self.inp.__exit__(None, None, None)
        except Exception:
            pass
        self.pty.drain_slave()
        self.enter()

    def read_all(self, data):
        """one arrival, then requests until None; returns flat list of keys (paste events
        flattened) or raises what Input raises"""
        from curtsies import events
        if not self.pty.feed(data):
            raise TimeoutError("pty did not deliver")
        keys = []
        while True:
            e = self.inp.send(0)
            if e is None:
                return keys
            if isinstance(e, events.PasteEvent):
                keys.extend(e.events)
            else:
                keys.append(e)

    def close(self):
        try:
            self.inp.__exit__(None, None, None)
        finally:
            self._pin.restore()
            self.pty.close()


def judge_reads(ctx, sess, facts, case, reads):
    from curtsies import events
    km = keysengine.modes()[sess.mode]
    nontrivial = sum(map(len, reads)) > 1
    carry = b""
    for i, data in enumerate(reads):
        sig = ("C03e2e", sess.encoding, sess.mode, sess.pt, tuple(reads[:i + 1]))
        # the start of a keypress that ends a read is kept by Input and completed by the next read
        whole = carry + data
        try:
            want, carry = drive_partial(events.get_key, carry + data, sess.encoding, km)
            want_exc = None
        except Exception as ex:  # noqa
            want, want_exc, carry = None, type(ex).__name__, b""
        try:
            got = sess.read_all(data)
            got_exc = None
        except TimeoutError:
            ctx.inconclusive_because("pty did not deliver bytes within 5 s")
            sess.reset()
            return
        except Exception as ex:  # noqa
            got, got_exc = None, type(ex).__name__
        if want_exc == "UnicodeDecodeError" and got_exc is None:
            # the decoder itself fails on this read (recorded finding: a sequence prefix followed by
            # a byte that does not decode). Input may pass the failure on - or recover from it, and
            # then it has to hand back the bytes it was given, in order, nothing lost
            if sess.mode == "bytes":
                joined = b"".join(k for k in got if isinstance(k, bytes))
                ok = all(isinstance(k, bytes) for k in got) and whole.startswith(joined) and \
                    len(whole) - len(joined) < events.MAX_KEYPRESS_SIZE
            else:
                ok = len(got) >= 1
            ctx.judge(ok, case, sig, "C03:input-recovers-lossily", whole, got, nontrivial=nontrivial)
            ctx.count("e2e_reads_where_input_recovers_from_a_decoder_error")
            sess.reset()
            if not ok:
                return
            continue
        if want_exc or got_exc:
            ok = want_exc == got_exc
            ctx.judge(ok, case, sig, "C03:input-differs-from-decoder", want_exc, got_exc or got,
                      nontrivial=nontrivial)
            sess.reset()
            if not ok:
                return
            continue
        ctx.judge(got == want, case, sig, "C03:input-differs-from-decoder", want, got,
                  "read %d of %r" % (i, reads), nontrivial=nontrivial)
        if got != want:
            sess.reset()
            return
    if carry:
        sess.reset()          # do not let a kept half keypress leak into the next history


def judge_late(ctx, sess, case):
    """`first` (two ordinary keys, then the start of a keypress) is read into Input's buffer by
    one request; the rest of that keypress has arrived by the time decoding gets to it: the keys
    are those of the whole byte string"""
    from curtsies import events
    km = keysengine.modes()[sess.mode]
    first, rest = case["first"], case["rest"]
    sig = ("C03e2e-late", sess.encoding, sess.mode, sess.pt, first, rest)
    try:
        want, left = drive_partial(events.get_key, first + rest, sess.encoding, km)
    except Exception:
        return
    try:
        if not sess.pty.feed(first):
            raise TimeoutError
        got = []
        e = sess.inp.send(0)
        if isinstance(e, events.PasteEvent):
            got.extend(e.events)
        elif e is not None:
            got.append(e)
        got.extend(sess.read_all(rest))
    except TimeoutError:
        ctx.inconclusive_because("pty did not deliver bytes within 5 s")
        sess.reset()
        return
    except Exception as ex:  # noqa
        ctx.judge(False, case, sig, "C03:input-differs-from-decoder", want, repr(ex))
        sess.reset()
        return
    ctx.judge(got == want, case, sig, "C03:sequence-completed-meanwhile-broken-up", want, got, nontrivial=True)
    ctx.count("e2e_late_completions")
    if got != want or left:
        sess.reset()


def run_case(ctx, case):
    if case.get("kind") == "e2e-late":
        sess = Session(case["encoding"], case["mode"], case.get("paste_threshold"))
        try:
            judge_late(ctx, sess, case)
        finally:
            sess.close()
        return
    facts = Facts(case["encoding"])
    sess = Session(case["encoding"], case["mode"], case.get("paste_threshold"))
    try:
        judge_reads(ctx, sess, facts, case, case["reads"])
    finally:
        sess.close()


def run(ctx):
    rng = ctx.rng
    from .c03 import units_for
    combos = [(e, m, pt) for e in ("ascii", "latin-1", "utf-8") for m in keysengine.MODES
              for pt in (None, 8)]
    for ci, (enc, mode, pt) in enumerate(combos):
        if not ctx.mine(ci):
            continue
        facts = Facts(enc)
        tabs = sorted(facts.table)
        sess = Session(enc, mode, pt)
        try:
            todo = []
            for T in (tabs if not ctx.quick else rng.sample(tabs, 60)):
                todo.append([T])                                  # alone: buffer exhausted
                todo.append([T + bytes([rng.randrange(256)])])      # more bytes buffered
                todo.append([T + rng.choice(tabs)])
            # prefixes that end a read, continued in the next read
            for T in rng.sample(tabs, 25):
                if len(T) > 1:
                    k = rng.randint(1, len(T) - 1)
                    todo.append([T[:k], T[k:]])
            if enc == "utf-8":
                # a multi-byte character whose bytes arrive in two reads
                for ch in ("é", "Ж", "一", "€", "😀"):
                    b = ch.encode("utf-8")
                    for k in range(1, len(b)):
                        todo.append([b"a" + b[:k], b[k:] + b"z"])
            for _ in range(40 if ctx.quick else 5000):
                todo.append([b"".join(units_for(facts, rng) for _ in range(rng.randint(1, 5)))
                             for _ in range(rng.randint(1, 3))])
            if pt is None:
                for T in rng.sample([t for t in tabs if len(t) > 1], 12 if ctx.quick else 200):
                    k = rng.randint(1, len(T) - 1)
                    judge_late(ctx, sess, {"kind": "e2e-late", "encoding": enc, "mode": mode, "paste_threshold": pt,
                                           "first": b"ab" + T[:k], "rest": T[k:] + rng.choice([b"", b"z"])})
            for reads in todo:
                reads = [r for r in reads if r]
                if not reads:
                    continue
                case = {"kind": "e2e", "encoding": enc, "mode": mode, "paste_threshold": pt, "reads": reads}
                judge_reads(ctx, sess, facts, case, reads)
                ctx.count("e2e_histories")
        finally:
            sess.close()
