"""C01 - str(FmtStr) displays exactly its characters and formatting, then resets."""
import itertools

from .. import obs
from ..model import sgr

LEVEL = "exploration"
RULE = ("FmtStrs are built from run specifications through fmtstr()/+; str(f) is fed to the "
        "independent SGR interpreter and must display exactly the spec's cells, end in the "
        "default graphic state and contain nothing but text and SGR sequences. Enumerated: "
        "every (fg, bg, style-subset) attribute set on one run, alone and embedded between "
        "differently formatted neighbours (thorough: tri-state True/False/absent styles and "
        "adjacent pairs); random multi-run strings over ASCII, newline, tab, wide and combining "
        "characters and empty runs. distinct = distinct specs; non-trivial = at least one "
        "character (empty-only specs are judged but not counted as distinct).")
FLOOR = 1000
SHARDS = {"thorough": 16}
ASSUMPTIONS = ["rv/model/sgr.py interprets SGR as ECMA-48 / xterm do for codes 0-5,7,22-25,27,30-37,39,40-47,49",
               "text free of ESC and 0x9B (the property's quantifier)"]

ALPHABET = ["a", "b", "Z", " ", "\n", "\t", "一", "Ｅ", "é", "́", "~", "m", "[", "0", ";"]


def attsets(tri):
    vals = (None, True, False) if tri else (None, True)
    for fg in obs.FGS:
        for bg in obs.BGS:
            for combo in itertools.product(vals, repeat=6):
                a = {}
                if fg:
                    a["fg"] = fg
                if bg:
                    a["bg"] = bg
                for k, v in zip(obs.STYLES, combo):
                    if v is not None:
                        a[k] = v
                yield a


def run_case(ctx, case):
    spec = case["spec"]
    want = obs.spec_cells(spec)
    try:
        f = obs.build(spec)
        s = str(f)
        s2 = str(f)
    except ValueError:
        if case.get("unusual_values"):
            ctx.count("unusual_style_value_rejected")      # refusing 0/None as a style value is fine
            return
        ctx.judge(False, case, mech="C01:exception", got="ValueError")
        return
    except Exception as e:  # noqa
        ctx.judge(False, case, mech="C01:exception", got=repr(e))
        return
    got, final, other = sgr.interpret(s)
    sig = ("C01", s)
    nontrivial = bool(want)
    if other:
        ctx.judge(False, case, sig, "C01:non-sgr-content", got=[s, other[:3]], nontrivial=nontrivial)
    elif got != want:
        ctx.judge(False, case, sig, "C01:display-mismatch", obs.show(want), [obs.show(got), s],
                  nontrivial=nontrivial)
    elif final != sgr.DEFAULT:
        ctx.judge(False, case, sig, "C01:not-reset", "default state", [repr(final), s],
                  nontrivial=nontrivial)
    elif s2 != s:
        ctx.judge(False, case, sig, "C01:unstable-str", s, s2, nontrivial=nontrivial)
    else:
        ctx.judge(True, case, sig, nontrivial=nontrivial)


NEIGH_L = ["x", {"fg": 36, "underline": True}]
NEIGH_R = ["y", {"bg": 45, "bold": True, "fg": 34}]


def run(ctx):
    tri = not ctx.quick
    n = 0
    for a in attsets(tri):
        n += 1
        if not ctx.mine(n):
            continue
        run_case(ctx, {"spec": [["a一\nb", a]]})
        run_case(ctx, {"spec": [NEIGH_L, ["pq", a], NEIGH_R]})
        ctx.count("attribute_sets_enumerated")
    if ctx.shard[0] == 0:
        # style values that are falsy without being False: off, like False (or refused)
        for a in ({"bold": 0}, {"underline": None, "fg": 31}, {"italic": 0, "bold": True}, {"invert": None, "bg": 44},
                  # ... and truthy without being True: on, like True (or refused)
                  {"dark": 1}, {"underline": 1, "fg": 31}, {"italic": 2}, {"blink": 1, "bold": 1}, {"invert": "yes"}):
            run_case(ctx, {"spec": [["a一\nb", a]], "unusual_values": True})
            run_case(ctx, {"spec": [NEIGH_L, ["pq", a], NEIGH_R], "unusual_values": True})
    ctx.exhaustive = True
    ctx.notes["attribute_sets_space"] = 59049 if tri else 5184
    if not ctx.quick:
        # adjacent ordered pairs: every two-state set next to a representative family
        fam = [a for i, a in enumerate(attsets(False)) if i % 81 == 7][:64]
        n = 0
        for a in attsets(False):
            for b in fam:
                n += 1
                if not ctx.mine(n):
                    continue
                run_case(ctx, {"spec": [["l", a], ["r", b]]})
                run_case(ctx, {"spec": [["r", b], ["", a], ["l", a]]})
                ctx.count("adjacent_pairs")
    rng = ctx.rng
    for _ in range(ctx.share(3000 if ctx.quick else 1000000)):
        spec = obs.rand_spec(rng, maxruns=5, maxlen=4, alphabet=ALPHABET)
        run_case(ctx, {"spec": spec})
        ctx.count("random_specs")
