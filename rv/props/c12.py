"""C12 - leaving any curtsies context restores terminal, tty and signal state."""
import fcntl
import os
import signal
import termios
import threading
import time
import tty

from .. import plumbing, inject
from ..model import term as tm

LEVEL = "fault_enumeration"
RULE = ("A scenario = context kind (Input, FullscreenWindow, CursorAwareWindow, Cbreak + the "
        "Termmode it returns, Termmode, Nonblocking, window around Input) x options (sigint_event, "
        "disable_terminal_start_stop, hide_cursor, keep_last_line) x initial tty attributes "
        "(cooked, raw, cbreak, echo off, ISIG off, IXON off, odd VMIN/VTIME) x initial file status "
        "flags (with/without O_NONBLOCK, O_APPEND) x application SIGINT handler and wake-up fd "
        "pre-installed or not x main / non-main thread x a body of operations (requests with "
        "timeouts, triggers, unget, renders, cursor queries). Crash points: (a) an exception "
        "before every operation of the body, (b) EVERY line-level event of curtsies code executed "
        "inside the body (sys.monitoring failpoints raising a KeyboardInterrupt subclass before "
        "the line runs), (c) real SIGINTs sent by a timer thread into blocked requests. After "
        "leaving the context: termios attributes, F_GETFL flags, SIGINT handler, signal wake-up "
        "fd and the open-fd table must equal the snapshot taken before entering; the reference "
        "terminal must show the cursor, be on the main screen with its content (FullscreenWindow) "
        "/ its history (CursorAwareWindow) untouched; after every request the stream must not be "
        "left non-blocking; 300 enter/exit cycles must not grow the fd table. distinct = distinct "
        "(scenario, crash point); non-trivial = a crash point that fired inside the body.")
FLOOR = 300
SHARDS = {"quick": 4, "thorough": 16}
TIMEOUT = {"thorough": 3000}
ASSUMPTIONS = ["exceptions inside __enter__/__exit__ of the context under test and sub-statement signal windows are out of reach",
               "re-entering the same instance while it is entered is not generated",
               "line events fire before the line executes: a crash 'at' a line means that line did not run"]


class AppState:
    """what the application had installed before curtsies was entered"""

    def __init__(self):
        self.rfd = self.wfd = None
        self.calls = 0

    def handler(self, signum, frame):
        self.calls += 1
        raise KeyboardInterrupt("application handler")


def wakeup_fd():
    old = signal.set_wakeup_fd(-1)
    signal.set_wakeup_fd(old, warn_on_full_buffer=False) if old != -1 else None
    return old


def fd_table():
    out = {}
    for n in os.listdir("/proc/self/fd"):
        try:
            out[int(n)] = os.readlink("/proc/self/fd/" + n)
        except OSError:
            pass
    return out


def snap(fd, with_wakeup=True):
    return {"attrs": termios.tcgetattr(fd), "flags": fcntl.fcntl(fd, fcntl.F_GETFL),
            "sigint": signal.getsignal(signal.SIGINT),
            "wakeup": wakeup_fd() if with_wakeup else None, "fds": fd_table()}


TTY_MODES = ["cooked", "raw", "cbreak", "noecho", "noisig", "noixon", "vmin"]


def set_tty_mode(fd, cooked, mode):
    termios.tcsetattr(fd, termios.TCSANOW, cooked)
    if mode == "raw":
        tty.setraw(fd)
    elif mode == "cbreak":
        tty.setcbreak(fd)
    elif mode != "cooked":
        a = termios.tcgetattr(fd)
        if mode == "noecho":
            a[3] &= ~termios.ECHO
        elif mode == "noisig":
            a[3] &= ~termios.ISIG
        elif mode == "noixon":
            a[0] &= ~termios.IXON
        elif mode == "vmin":
            a[3] &= ~termios.ICANON
            a[6][termios.VMIN] = 3
            a[6][termios.VTIME] = 2
        termios.tcsetattr(fd, termios.TCSANOW, a)


def fionread(fd):
    import array
    buf = array.array('i', [0])
    fcntl.ioctl(fd, termios.FIONREAD, buf)
    return buf[0]


OUTER = {"Input", "BaseWindow", "FullscreenWindow", "CursorAwareWindow", "Cbreak", "Termmode"}


def exclude(code):
    if code.co_name not in ("__enter__", "__exit__"):
        return False
    cls = code.co_qualname.split(".")[0]
    if cls in OUTER:
        return True
    if cls == "Nonblocking":
        # Input uses Nonblocking internally (inside the Input context: counted); a
        # Nonblocking entered by the harness is itself the context under test
        import sys
        f = sys._getframe(2)          # exclude <- _on_line <- monitored frame
        caller = f.f_back
        return caller is None or os.sep + "curtsies" + os.sep not in caller.f_code.co_filename
    return False


ARRAYS = [["ab", "cd"], ["x"], [], ["abcdefgh", "ij", "k", "l", "m", "n"], ["same", "same"]]


class Rig:
    def __init__(self):
        self.pty = plumbing.Pty(transparent=False)
        self.cooked = termios.tcgetattr(self.pty.slave)
        self.flags0 = fcntl.fcntl(self.pty.slave, fcntl.F_GETFL)
        self.fp = inject.Failpoints(exclude=exclude, c_returns=True)
        self.fp.install()
        self.app = AppState()
        self.app.rfd, self.app.wfd = os.pipe()
        os.set_blocking(self.app.wfd, False)
        os.set_blocking(self.app.rfd, False)
        self.default_sigint = signal.getsignal(signal.SIGINT)

    def close(self):
        if getattr(self, "pty2", None) is not None:
            self.pty2.close()
        self.fp.uninstall()
        signal.signal(signal.SIGINT, self.default_sigint)
        signal.set_wakeup_fd(-1)
        os.close(self.app.rfd)
        os.close(self.app.wfd)
        self.pty.close()


_RIG = [None]


def rig():
    if _RIG[0] is None:
        _RIG[0] = Rig()
    return _RIG[0]


def fmt_rows(rows):
    from curtsies.formatstring import fmtstr
    return [fmtstr(r, "red") if i % 2 else r for i, r in enumerate(rows)]


def run_scenario(sc):
    """Execute one scenario; returns observation dict."""
    R = rig()
    result = {}
    if sc.get("thread"):
        # signals and wake-up fds are main-thread business: snapshot them from here
        before_w = wakeup_fd()
        box = {}
        t = threading.Thread(target=lambda: box.update(_scenario(R, sc, in_thread=True)), name="worker")
        t.start()
        t.join(30)
        if t.is_alive():
            return {"hang": True}
        result = box
        after_w = wakeup_fd()
        if before_w != after_w:
            result.setdefault("diffs", []).append("wakeup")
        return result
    return _scenario(R, sc, in_thread=False)


APP_EXCEPTIONS = {"FileNotFoundError": FileNotFoundError, "TimeoutError": TimeoutError, "BrokenPipeError": BrokenPipeError,
                  "ZeroDivisionError": ZeroDivisionError, "SystemExit": SystemExit, "UnicodeEncodeError": None}


def app_exception(sc, msg):
    """the exception the application's own code raises inside the body: a KeyboardInterrupt by
    default, or the type the scenario names (a missing file, a closed pipe, sys.exit())"""
    name = sc.get("exc")
    if name == "UnicodeEncodeError":
        ex = UnicodeEncodeError("ascii", "\xe9", 0, 1, msg)
    elif name:
        ex = APP_EXCEPTIONS[name](msg)
    else:
        return inject.Inject(msg)
    ex._from_harness = True
    return ex


def _scenario(R, sc, in_thread):
    import curtsies
    from curtsies import Input, FullscreenWindow, CursorAwareWindow, Cbreak, Nonblocking, Termmode
    kind = sc["kind"]
    cfg = sc.get("cfg", {})
    fd = R.pty.slave
    stream = R.pty.stream
    # ---- initial state chosen by the scenario
    set_tty_mode(fd, R.cooked, sc.get("tty", "cooked"))
    fcntl.fcntl(fd, fcntl.F_SETFL, R.flags0 | sc.get("flags", 0))
    if not in_thread:
        if sc.get("app"):
            signal.signal(signal.SIGINT, R.app.handler)
            signal.set_wakeup_fd(R.app.wfd, warn_on_full_buffer=False)
        elif sc.get("disposition") in ("dfl", "ign"):
            # the C-level dispositions an application may have chosen (no real SIGINT is
            # sent in these scenarios)
            signal.signal(signal.SIGINT, signal.SIG_DFL if sc["disposition"] == "dfl" else signal.SIG_IGN)
            signal.set_wakeup_fd(-1)
        else:
            signal.signal(signal.SIGINT, R.default_sigint)
            signal.set_wakeup_fd(-1)
    R.pty.drain_slave()
    if sc.get("input_bytes", True) and "input" in kind:
        R.pty.feed_nowait(b"ab\x1b[A")
    # ---- objects (triggers are created before the baseline: their pipes are not
    #      "what entering changed")
    term = out = sin = None
    objs = {}
    closers = []
    if "full" in kind or "caw" in kind:
        sin = plumbing.ScriptedIn("ascii")
        term = tm.Term(5, 8, reply=sin.push)
        term.feed("old1\r\nold2\r\n")
        out = plumbing.TeeOut(5, 8, sink=term.feed)
        closers += [out, sin]
    inp = None
    if "input" in kind:
        inp = Input(stream, sigint_event=cfg.get("sigint_event", False),
                    disable_terminal_start_stop=cfg.get("dtss", False))
        objs["ev"] = inp.event_trigger(lambda **k: "EV")
        objs["sched"] = inp.scheduled_event_trigger(curtsies.events.ScheduledEvent)
        if "tsafe" in sc.get("body", []):
            objs["tsafe"] = inp.threadsafe_event_trigger(lambda **k: "TS")
    if kind in ("full", "full+input"):
        win = FullscreenWindow(out, hide_cursor=cfg.get("hide_cursor", True))
    elif kind in ("caw", "caw+input"):
        win = CursorAwareWindow(out, sin, hide_cursor=cfg.get("hide_cursor", True),
                                keep_last_line=cfg.get("keep_last_line", False))
    else:
        win = None
    # the plain context managers are constructed here, i.e. possibly long before they are
    # entered
    cm = None
    if kind == "cbreak":
        cm = Cbreak(stream)
    elif kind == "termmode":
        attrs = termios.tcgetattr(fd)
        attrs[3] &= ~termios.ECHO
        cm = Termmode(stream, attrs)
    elif kind == "nonblocking":
        cm = Nonblocking(stream)
    if sc.get("late"):
        # the application changes the tty and the flags between constructing the object and
        # entering it: what must come back is the state at ENTRY
        set_tty_mode(fd, R.cooked, sc["late"])
        fcntl.fcntl(fd, fcntl.F_SETFL, fcntl.fcntl(fd, fcntl.F_GETFL) ^ os.O_APPEND)
    main_before = (term.text(term.main), term.y, term.x) if term else None
    base = snap(fd, with_wakeup=not in_thread)
    nb_violation = []
    fp = R.fp
    crash = sc.get("crash")
    obs = {"fired": False, "where": None, "lines": None}

    def check_nonblocking():
        fl = fcntl.fcntl(fd, fcntl.F_GETFL)
        if fl & os.O_NONBLOCK and not base["flags"] & os.O_NONBLOCK:
            nb_violation.append(fl)

    def body():
        for k, op in enumerate(sc.get("body", [])):
            if crash and crash[0] == "op" and crash[1] == k:
                obs["fired"] = True
                obs["where"] = ("before op", k, op)
                raise app_exception(sc, "before op %d" % k)
            if op in ("send0", "send_s"):
                if sc.get("survive"):
                    # the usual "survive Ctrl-C" loop: the interrupt is caught around the request
                    # and the application goes on using the Input
                    try:
                        inp.send(0 if op == "send0" else 0.002)
                    except inject.Inject:
                        obs["survived"] = True
                else:
                    inp.send(0 if op == "send0" else 0.002)
                check_nonblocking()     # between requests: after a request that returned or was interrupted
            elif op == "ev":
                objs["ev"]()
            elif op == "tsafe":
                objs["tsafe"]()
            elif op == "sched":
                objs["sched"](time.time() - 1)
            elif op == "sched_future":
                objs["sched"](time.time() + 0.001)
            elif op == "unget":
                inp.unget_bytes(b"xy")
            elif op == "feed":
                R.pty.feed_nowait(b"q\x1b[B")
            elif isinstance(op, list) and op[0] == "render":
                if sc.get("survive"):
                    # the application catches whatever interrupts a render and carries on; the
                    # context is then left normally
                    try:
                        win.render_to_terminal(fmt_rows(ARRAYS[op[1]]), tuple(op[2]))
                    except inject.Inject:
                        obs["survived"] = True
                else:
                    win.render_to_terminal(fmt_rows(ARRAYS[op[1]]), tuple(op[2]))
            elif op == "diff":
                win.get_cursor_vertical_diff()
            elif op == "pos":
                win.get_cursor_position()
            elif op == "cbreak-inner":
                with objs["normal"]:
                    pass
            elif op == "nonblocking-inner":
                with Nonblocking(stream):
                    try:
                        os.read(fd, 10)
                    except BlockingIOError:
                        pass
            else:
                raise ValueError(op)
        if crash and crash[0] == "op" and crash[1] == len(sc.get("body", [])):
            obs["fired"] = True
            obs["where"] = ("after last op",)
            raise app_exception(sc, "after the last op")

    def guarded():
        fp.arm(crash[1] if crash and crash[0] == "line" else None,
               crash[1:] if crash and crash[0] == "at" else None)
        try:
            body()
        finally:
            fp.disarm()

    exc = None
    try:
        if kind == "input":
            with inp:
                guarded()
        elif kind in ("full", "caw"):
            with win:
                guarded()
        elif kind in ("full+input", "caw+input"):
            with win:
                with inp:
                    guarded()
        elif kind == "cbreak":
            with cm as normal:
                objs["normal"] = normal
                guarded()
            if sc.get("twice"):
                # the same object used a second time after the application changed the state
                set_tty_mode(fd, R.cooked, sc["twice"])
                fcntl.fcntl(fd, fcntl.F_SETFL, fcntl.fcntl(fd, fcntl.F_GETFL) ^ os.O_APPEND)
                base = snap(fd, with_wakeup=not in_thread)
                with cm as normal:
                    objs["normal"] = normal
                    guarded()
        elif kind in ("termmode", "nonblocking"):
            with cm:
                guarded()
            if sc.get("twice"):
                set_tty_mode(fd, R.cooked, sc["twice"])
                fcntl.fcntl(fd, fcntl.F_SETFL, fcntl.fcntl(fd, fcntl.F_GETFL) ^ os.O_APPEND)
                base = snap(fd, with_wakeup=not in_thread)
                with cm:
                    guarded()
        else:
            raise ValueError(kind)
    except inject.Inject as ex:
        exc = ex
    except KeyboardInterrupt as ex:
        exc = ex
    except BaseException as ex:
        if not getattr(ex, "_from_harness", False):
            raise
        exc = ex
    finally:
        fp.disarm()
    if fp.fired:
        obs["fired"] = True
        obs["where"] = fp.where
    obs["lines"] = fp.count
    after = snap(fd, with_wakeup=not in_thread)
    diffs = [k for k in base if base[k] != after[k]]
    detail = {}
    for k in diffs:
        if k == "fds":
            detail[k] = {"gone": {n: v for n, v in base[k].items() if n not in after[k]},
                         "new": {n: v for n, v in after[k].items() if n not in base[k]}}
        elif k == "flags":
            detail[k] = [oct(base[k]), oct(after[k])]
        elif k == "attrs":
            detail[k] = [[i for i in range(6) if base[k][i] != after[k][i]],
                         [i for i in range(len(base[k][6])) if base[k][6][i] != after[k][6][i]]]
        else:
            detail[k] = [repr(base[k]), repr(after[k])]
    if nb_violation:
        diffs.append("nonblocking-between-requests")
    if term is not None:
        if term.in_alt:
            diffs.append("alternate-screen")
        if not term.cursor_visible:
            diffs.append("cursor-hidden")
        if "full" in kind and (term.text(term.main), term.y, term.x) != main_before and not term.in_alt:
            diffs.append("main-screen-changed")
            detail["main"] = [main_before, (term.text(term.main), term.y, term.x)]
        if "caw" in kind:
            lines = [l.rstrip() for l in term.text(term.all_main_lines())]
            if lines[:2] != ["old1", "old2"]:
                diffs.append("history-changed")
                detail["history"] = lines[:4]
        if term.unknown:
            obs["unknown"] = term.unknown[:3]
    for c in closers:
        c.close()
    if inp is not None and "tsafe" in objs:
        # housekeeping after the verdict's snapshot: the pipes of threadsafe triggers are never
        # closed by the library; thousands of scenarios in one process would push descriptor
        # numbers past what select() accepts
        from .c08 import release_trigger_fds
        release_trigger_fds(inp, [objs["tsafe"]])
    # leave the rig clean for the next scenario
    termios.tcsetattr(fd, termios.TCSANOW, R.cooked)
    fcntl.fcntl(fd, fcntl.F_SETFL, R.flags0)
    obs.update(diffs=diffs, detail=detail, exc=repr(exc) if exc else None)
    return obs


def classify(sc, obs):
    d = set(obs.get("diffs", []))
    if d == {"wakeup"} and "input" in sc["kind"]:
        return "C12:wakeup-fd-not-restored"
    if d == {"cursor-hidden"} and not sc.get("cfg", {}).get("hide_cursor", True) and obs.get("fired"):
        return "C12:cursor-left-hidden"
    if d == {"nonblocking-between-requests"} and sc.get("survive") and obs.get("where") and \
            str(obs["where"][1]).startswith("Nonblocking.__enter__"):
        return "C12:interrupted-while-entering-nonblocking"
    if d and d <= {"flags", "nonblocking-between-requests"} and obs.get("fired") and obs.get("where") and \
            len(obs["where"]) == 3 and str(obs["where"][1]).startswith("Nonblocking.__exit__"):
        return "C12:interrupted-inside-nonblocking-restore"
    return "C12:not-restored:" + "+".join(sorted(d))


def judge(ctx, sc, obs):
    sig = ("C12", repr(sorted((k, repr(v)) for k, v in sc.items())))
    if obs.get("hang"):
        ctx.inconclusive_because("scenario thread hung")
        return
    if obs.get("unknown"):
        ctx.inconclusive_because("reference terminal met an unknown sequence %r" % (obs["unknown"],))
        return
    ok = not obs["diffs"]
    ctx.judge(ok, sc, sig, classify(sc, obs) if not ok else "", "state as before entering",
              obs["diffs"], {"where": obs.get("where"), "detail": obs.get("detail"), "exc": obs.get("exc")},
              nontrivial=bool(obs.get("fired")))
    if obs.get("fired"):
        ctx.count("crash_points_fired")
    ctx.count("scenarios")


def run_nonblocking_streams(ctx, case):
    """Nonblocking on streams that are not a tty - the read end of a pipe (file status flags 0),
    its write end, /dev/null, a socket - with and without further flags set beforehand; left
    normally or through an exception; the same object used twice."""
    import socket
    from curtsies import Nonblocking
    r, w = os.pipe()
    sa, sb = socket.socketpair()
    streams = {"pipe-read": os.fdopen(r, "rb", 0), "pipe-write": os.fdopen(w, "wb", 0),
               "devnull": open(os.devnull, "rb", 0), "socket": sa.makefile("rwb", 0)}
    try:
        st = streams[case["stream"]]
        fd = st.fileno()
        extra = case.get("flags", 0)
        if extra:
            fcntl.fcntl(fd, fcntl.F_SETFL, fcntl.fcntl(fd, fcntl.F_GETFL) | extra)
        before = fcntl.fcntl(fd, fcntl.F_GETFL)
        problems = []
        cm = Nonblocking(st)
        for use in range(case.get("uses", 1)):
            try:
                with cm:
                    if not fcntl.fcntl(fd, fcntl.F_GETFL) & os.O_NONBLOCK:
                        problems.append("use %d: not non-blocking inside the context" % use)
                    if case.get("raises"):
                        raise app_exception({"exc": case["raises"]}, "inside Nonblocking")
            except BaseException as ex:  # noqa
                if not getattr(ex, "_from_harness", False):
                    problems.append("use %d: %r" % (use, ex))
            after = fcntl.fcntl(fd, fcntl.F_GETFL)
            if after != before:
                problems.append("use %d: file status flags %#o before, %#o after" % (use, before, after))
        ctx.judge(not problems, case, ("C12", "nonblocking-streams", repr(case)), "C12:not-restored:flags",
                  "flags as before", problems, {"flags_before": before})
        ctx.count("nonblocking_on_other_streams")
    finally:
        for st in streams.values():
            st.close()
        sa.close()
        sb.close()


def run_case(ctx, case):
    if case.get("kind") == "nonblocking-streams":
        return run_nonblocking_streams(ctx, case)
    if case.get("kind") == "sigint":
        return run_sigint(ctx, case)
    if case.get("kind") == "storm":
        return run_storm(ctx, case)
    if case.get("kind") == "overlap":
        return run_overlap(ctx, case)
    if case.get("kind") == "cycles":
        return run_cycles(ctx, case)
    if case.get("kind") == "reuse":
        return run_reuse(ctx, case)
    if case.get("kind") == "nested-inputs":
        return run_nested_inputs(ctx, case)
    obs = run_scenario(case)
    judge(ctx, case, obs)


def enumerate_crashes(ctx, sc, lines=True, ops=True, mine=None):
    """run the scenario without a crash, then once per crash point"""
    n = [0]

    def take():
        n[0] += 1
        return mine is None or mine(n[0])
    base = dict(sc, crash=None)
    obs = run_scenario(base)
    if take():
        judge(ctx, base, obs)
    nlines = obs.get("lines") or 0
    if ops:
        for k in range(len(sc.get("body", [])) + 1):
            if take():
                c = dict(sc, crash=["op", k])
                judge(ctx, c, run_scenario(c))
                # the same exit through another kind of exception
                names = sorted(APP_EXCEPTIONS)
                c = dict(sc, crash=["op", k], exc=names[(k + len(repr(sc))) % len(names)])
                judge(ctx, c, run_scenario(c))
                ctx.count("exits_through_other_exception_types")
    if lines:
        for k in range(1, nlines + 1):
            if take():
                c = dict(sc, crash=["line", k])
                judge(ctx, c, run_scenario(c))
                ctx.count("line_crash_points")
    return nlines


INPUT_BODY = ["send0", "ev", "send0", "send0", "unget", "send0", "sched", "send_s", "tsafe", "send0", "send_s"]
FULL_BODY = [["render", 0, [1, 1]], ["render", 1, [0, 0]], ["render", 4, [0, 2]], ["render", 3, [2, 0]]]
CAW_BODY = [["render", 0, [1, 1]], "diff", ["render", 3, [0, 0]], "pos", ["render", 1, [0, 0]]]
NEST_BODY = [["render", 0, [0, 0]], "send0", "ev", "send0", ["render", 1, [0, 0]], "send_s"]


def matrix(rng, quick):
    """option matrix: every scenario with operation-boundary crashes only"""
    out = []
    for se in (False, True):
        for dt in (False, True):
            for app in (False, True):
                for thread in (False, True):
                    out.append({"kind": "input", "cfg": {"sigint_event": se, "dtss": dt}, "app": app,
                                "thread": thread, "tty": rng.choice(TTY_MODES),
                                "flags": rng.choice([0, os.O_NONBLOCK, os.O_APPEND]),
                                "body": INPUT_BODY[:6]})
    for kind in ("input", "cbreak", "termmode", "nonblocking", "caw", "full+input"):
        for late in ("raw", "noecho", "vmin"):
            body = {"input": INPUT_BODY[:4], "cbreak": ["cbreak-inner", "nonblocking-inner"],
                    "termmode": ["nonblocking-inner"], "nonblocking": ["nonblocking-inner"],
                    "caw": CAW_BODY[:3], "full+input": NEST_BODY[:4]}[kind]
            out.append({"kind": kind, "late": late, "tty": rng.choice(TTY_MODES), "body": body,
                        "cfg": {"sigint_event": late == "raw"}})
            if kind in ("cbreak", "termmode", "nonblocking"):
                out.append({"kind": kind, "twice": late, "tty": rng.choice(TTY_MODES), "body": body})
    for disp in ("dfl", "ign"):
        for se in (False, True):
            out.append({"kind": "input", "cfg": {"sigint_event": se}, "disposition": disp, "tty": rng.choice(TTY_MODES),
                        "body": INPUT_BODY[:4]})
            out.append({"kind": "caw+input", "cfg": {"sigint_event": se, "hide_cursor": se}, "disposition": disp,
                        "body": NEST_BODY[:4]})
    for hide in (True, False):
        out.append({"kind": "full", "cfg": {"hide_cursor": hide}, "body": FULL_BODY, "tty": rng.choice(TTY_MODES)})
        for keep in (False, True):
            out.append({"kind": "caw", "cfg": {"hide_cursor": hide, "keep_last_line": keep},
                        "body": CAW_BODY, "tty": rng.choice(TTY_MODES)})
        out.append({"kind": "full+input", "cfg": {"hide_cursor": hide, "sigint_event": hide}, "body": NEST_BODY,
                    "app": True})
        out.append({"kind": "caw+input", "cfg": {"hide_cursor": hide, "sigint_event": not hide}, "body": NEST_BODY})
    for mode in TTY_MODES:
        for fl in (0, os.O_NONBLOCK, os.O_APPEND, os.O_NONBLOCK | os.O_APPEND):
            out.append({"kind": "cbreak", "tty": mode, "flags": fl, "body": ["cbreak-inner", "nonblocking-inner"]})
            out.append({"kind": "termmode", "tty": mode, "flags": fl, "body": ["nonblocking-inner"]})
            out.append({"kind": "nonblocking", "tty": mode, "flags": fl, "body": ["nonblocking-inner"]})
            out.append({"kind": "input", "tty": mode, "flags": fl, "cfg": {"sigint_event": bool(fl & 1)},
                        "body": ["send0", "send_s"]})
    return out


def line_scenarios(rng, quick):
    q = quick
    scs = [
        {"kind": "input", "cfg": {"sigint_event": True}, "body": INPUT_BODY[:8] if q else INPUT_BODY, "tty": "cooked"},
        {"kind": "input", "cfg": {"sigint_event": False, "dtss": True}, "body": INPUT_BODY[4:10] if q else INPUT_BODY[:7],
         "tty": "raw", "flags": os.O_NONBLOCK, "app": True},
        {"kind": "input", "cfg": {"sigint_event": False}, "body": ["send0", "feed", "send0", "send_s", "send0"],
         "tty": "cbreak", "survive": True},
        {"kind": "full", "cfg": {"hide_cursor": False}, "body": FULL_BODY[:2], "tty": "cooked", "survive": True},
        {"kind": "caw", "cfg": {"hide_cursor": False, "keep_last_line": True}, "body": [["render", 0, [1, 1]], ["render", 3, [0, 0]]],
         "tty": "cbreak", "survive": True},
        {"kind": "full", "cfg": {"hide_cursor": True}, "body": FULL_BODY[1:4] if q else FULL_BODY, "tty": "noecho"},
        {"kind": "caw", "cfg": {"hide_cursor": True, "keep_last_line": True}, "body": CAW_BODY[:4] if q else CAW_BODY,
         "tty": "cbreak"},
        {"kind": "full", "cfg": {"hide_cursor": False}, "body": FULL_BODY[:2], "tty": "cooked"},
        {"kind": "caw", "cfg": {"hide_cursor": False, "keep_last_line": False}, "body": CAW_BODY[:3], "tty": "raw"},
    ]
    if not quick:
        scs += [
            {"kind": "full", "cfg": {"hide_cursor": False}, "body": FULL_BODY, "tty": "cooked"},
            {"kind": "caw", "cfg": {"hide_cursor": False, "keep_last_line": False}, "body": CAW_BODY, "tty": "vmin"},
            {"kind": "full+input", "cfg": {"hide_cursor": True, "sigint_event": True}, "body": NEST_BODY, "app": True},
            {"kind": "caw+input", "cfg": {"hide_cursor": True}, "body": NEST_BODY, "tty": "noisig"},
            {"kind": "cbreak", "body": ["cbreak-inner", "nonblocking-inner"], "tty": "raw"},
        ]
        ops_in = ["send0", "send_s", "ev", "tsafe", "sched", "sched_future", "unget", "feed"]
        for _ in range(150):
            kind = rng.choice(["input", "input", "full", "caw", "full+input", "caw+input"])
            cfg = {"sigint_event": rng.random() < .5, "dtss": rng.random() < .3,
                   "hide_cursor": rng.random() < .6, "keep_last_line": rng.random() < .5}
            body = []
            for _ in range(rng.randint(3, 8)):
                if kind == "input":
                    body.append(rng.choice(ops_in))
                elif "+" in kind:
                    body.append(rng.choice(ops_in + [["render", rng.randrange(5), [0, 0]]] * 4))
                else:
                    body.append(rng.choice([["render", rng.randrange(5), [rng.randrange(2), rng.randrange(3)]]] * 4
                                           + (["diff", "pos"] if kind == "caw" else [])))
            scs.append({"kind": kind, "cfg": cfg, "body": body, "tty": rng.choice(TTY_MODES),
                        "flags": rng.choice([0, 0, os.O_NONBLOCK, os.O_APPEND]), "app": rng.random() < .4})
    return scs


def run_cycles(ctx, case):
    """repeated use leaks no file descriptors"""
    from curtsies import Input, FullscreenWindow, CursorAwareWindow, Cbreak
    R = rig()
    set_tty_mode(R.pty.slave, R.cooked, "cooked")
    n = case["n"]
    sin = plumbing.ScriptedIn("ascii")
    term = tm.Term(5, 8, reply=sin.push)
    out = plumbing.TeeOut(5, 8, sink=term.feed)
    before = fd_table()
    for i in range(n):
        with Input(R.pty.stream, sigint_event=bool(i % 2)) as inp:
            inp.send(0)
        with FullscreenWindow(out) as w:
            w.render_to_terminal(["a"], (0, 0))
        with CursorAwareWindow(out, sin) as w:
            w.render_to_terminal(["a"], (0, 0))
        with Cbreak(R.pty.stream):
            pass
    after = fd_table()
    out.close()
    sin.close()
    after2 = {k: v for k, v in after.items() if k not in (out.master, out.slave, sin.master, sin.slave)}
    before2 = {k: v for k, v in before.items() if k not in (out.master, out.slave, sin.master, sin.slave)}
    ctx.judge(after2 == before2, case, ("C12", "cycles", n), "C12:fd-leak", len(before2), len(after2),
              {"new": {k: v for k, v in after2.items() if k not in before2}})
    ctx.count("enter_exit_cycles", n * 4)


def run_reuse(ctx, case):
    """the same Input instance entered and left several times, on the main thread and on a
    worker thread, while the application opens descriptors in between"""
    from curtsies import Input
    R = rig()
    fd = R.pty.slave
    set_tty_mode(fd, R.cooked, case.get("tty", "cooked"))
    R.pty.drain_slave()
    signal.signal(signal.SIGINT, R.default_sigint)
    signal.set_wakeup_fd(-1)
    inp = Input(R.pty.stream, sigint_event=case["sigint_event"])
    base = snap(fd)
    extras = []
    problems = []

    def use(box):
        try:
            with inp:
                inp.send(0)
                inp.send(0.02)       # a request that has to wait: nothing is typed
        except BaseException as ex:  # noqa
            box.append(repr(ex))

    app_pipes = []       # (read end, write end, bytes the application wrote and has not read)
    for k, where in enumerate(case["uses"]):
        box = []
        if where == "thread":
            t = threading.Thread(target=use, args=(box,), daemon=True)
            t.start()
            t.join(8)
            if t.is_alive():
                # a 20 ms request on a worker thread that has not ended after 8 s never will; the
                # process is given up (the stuck thread spins)
                problems.append("use %d (%s): a request with a 0.02 s timeout did not return within 8 s" % (k, where))
                ctx.judge(False, case, ("C12", "reuse", repr(case)), "C12:instance-reuse", "state as before entering",
                          problems, nontrivial=True)
                ctx.notes["stuck_worker_thread"] = True
                return
        else:
            use(box)
        if box:
            problems.append("use %d (%s) raised %s" % (k, where, box[0]))
        for e in extras:
            try:
                os.fstat(e)
            except OSError:
                problems.append("descriptor %d opened by the application was closed by use %d (%s)" % (e, k, where))
        for r_, w_, data in app_pipes:
            # what the application wrote into its own pipes is still there, untouched
            try:
                n = fionread(r_)
            except OSError:
                n = -1
            if n != len(data):
                problems.append("use %d (%s) consumed data from a pipe of the application (%d of %d bytes left)"
                                % (k, where, n, len(data)))
        # the application opens descriptors between uses (they may get recycled numbers) and
        # writes to them
        if not problems:
            r_, w_ = os.pipe()
            extras.extend((r_, w_))
            os.write(w_, b"application data \x02\x02")
            app_pipes.append((r_, w_, b"application data \x02\x02"))
        now = snap(fd)
        want_fds = dict(base["fds"])
        got_fds = {n: v for n, v in now["fds"].items() if n not in extras}
        for key in ("attrs", "flags", "sigint", "wakeup"):
            if now[key] != base[key]:
                problems.append("%s not restored after use %d (%s)" % (key, k, where))
        if got_fds != {n: v for n, v in want_fds.items() if n not in extras}:
            problems.append("fd table changed after use %d (%s)" % (k, where))
        if problems:
            break
    for e in extras:
        try:
            os.close(e)
        except OSError:
            pass
    termios.tcsetattr(fd, termios.TCSANOW, R.cooked)
    ctx.judge(not problems, case, ("C12", "reuse", repr(case)), "C12:instance-reuse", "state as before entering",
              problems, nontrivial=True)
    ctx.count("reuse_histories")


def run_nested_inputs(ctx, case):
    """an inner Input entered and left inside an outer one: leaving the inner context must
    give the outer one back what it had installed (its signal wake-up descriptor, its SIGINT
    handler), so that the outer request is still interrupted promptly by a SIGINT"""
    from curtsies import Input, events
    R = rig()
    fd = R.pty.slave
    set_tty_mode(fd, R.cooked, case.get("tty", "cooked"))
    R.pty.drain_slave()
    late = []
    signal.signal(signal.SIGINT, lambda s_, f_: late.append(1))
    signal.set_wakeup_fd(-1)
    base = snap(fd)
    outer = Input(R.pty.stream, sigint_event=True)
    inner = Input(R.pty.stream, sigint_event=case["inner_sigint_event"])
    problems = []
    waited = None
    th = threading.Thread(target=lambda: (time.sleep(0.03), os.kill(os.getpid(), signal.SIGINT)))
    try:
        with outer:
            mid = snap(fd)
            with inner:
                inner.send(0)
            after_inner = snap(fd)
            for k in ("attrs", "flags", "sigint", "wakeup"):
                if after_inner[k] != mid[k]:
                    problems.append("%s of the outer context not restored when the inner one was left" % k)
            th.start()
            t0 = time.monotonic()
            e = outer.send(2.0)
            waited = time.monotonic() - t0
            if not isinstance(e, events.SigIntEvent):
                problems.append("outer request returned %r instead of the SIGINT event" % (e,))
            elif waited > 1.0:
                problems.append("outer request was not woken by the signal (returned after %.2fs)" % waited)
    except KeyboardInterrupt:
        problems.append("KeyboardInterrupt escaped although the outer Input has sigint_event=True")
    try:
        th.join()
    except KeyboardInterrupt:
        pass
    after = snap(fd)
    for k in base:
        if base[k] != after[k]:
            problems.append("%s not restored after both contexts were left" % k)
    signal.signal(signal.SIGINT, R.default_sigint)
    termios.tcsetattr(fd, termios.TCSANOW, R.cooked)
    mech = "C12:wakeup-fd-not-restored" if any("wakeup" in p or "not woken" in p for p in problems) else "C12:nested-inputs"
    ctx.judge(not problems, case, ("C12", "nested", repr(case)), mech, "outer context intact", problems,
              {"waited": waited}, nontrivial=True)
    ctx.count("nested_input_histories")


def run_sigint(ctx, case):
    """real SIGINT from a timer thread into a blocked request"""
    from curtsies import Input, events
    R = rig()
    fd = R.pty.slave
    set_tty_mode(fd, R.cooked, case.get("tty", "cooked"))
    R.pty.drain_slave()
    signal.signal(signal.SIGINT, R.app.handler if case.get("app") else R.default_sigint)
    signal.set_wakeup_fd(R.app.wfd if case.get("app") else -1, warn_on_full_buffer=False)
    inp = Input(R.pty.stream, sigint_event=case["sigint_event"])
    base = snap(fd)
    got = {"kbi": 0, "events": 0, "none": 0}
    R.fp.pause()         # real signals: no instrumentation callbacks in the way
    delay = case["delay"]
    th = threading.Thread(target=lambda: (time.sleep(delay), os.kill(os.getpid(), signal.SIGINT)))
    try:
        try:
            with inp:
                th.start()
                try:
                    for _ in range(case.get("requests", 3)):
                        e = inp.send(0.03)
                        if isinstance(e, events.SigIntEvent):
                            got["events"] += 1
                        elif e is None:
                            got["none"] += 1
                finally:
                    fl = fcntl.fcntl(fd, fcntl.F_GETFL)
                    if fl & os.O_NONBLOCK and not base["flags"] & os.O_NONBLOCK:
                        got["nonblocking"] = True
        except KeyboardInterrupt:
            got["kbi"] += 1
        # the signal may still be on its way: absorb it here, outside the context
        t_end = time.time() + 1.0
        while th.is_alive() or (got["kbi"] + got["events"] == 0 and time.time() < t_end):
            try:
                time.sleep(0.002)
                if not th.is_alive() and R.app.calls == 0 and got["kbi"] + got["events"] == 0:
                    # default handler: a late SIGINT raises here
                    pass
                if not th.is_alive():
                    time.sleep(0.01)
                    break
            except KeyboardInterrupt:
                got["late"] = got.get("late", 0) + 1
    except KeyboardInterrupt:
        got["late"] = got.get("late", 0) + 1
    try:
        th.join()
    except KeyboardInterrupt:
        got["late"] = got.get("late", 0) + 1
    R.fp.resume()
    after = snap(fd)
    diffs = [k for k in base if base[k] != after[k]]
    if got.get("nonblocking"):
        diffs.append("nonblocking-between-requests")
    mech = "C12:wakeup-fd-not-restored" if diffs == ["wakeup"] else "C12:not-restored-after-sigint:" + "+".join(diffs)
    ctx.judge(not diffs, case, ("C12", "sigint", case["sigint_event"], case.get("app"), round(delay, 4)), mech,
              "state as before entering", diffs, got, nontrivial=True)
    ctx.count("real_sigints")
    for k, v in got.items():
        ctx.count("sigint_outcome:%s" % k, int(v))
    termios.tcsetattr(fd, termios.TCSANOW, R.cooked)


def run_overlap(ctx, case):
    """two context managers of the same kind on two DIFFERENT terminals, open at the same time and
    left in the order they were entered (two threads or two sessions do that): each terminal gets
    back its own state"""
    from curtsies import Cbreak, Nonblocking, Termmode
    R = rig()
    if getattr(R, "pty2", None) is None:
        R.pty2 = plumbing.Pty(transparent=False)
        R.cooked2 = termios.tcgetattr(R.pty2.slave)
    fds = [R.pty.slave, R.pty2.slave]
    streams = [R.pty.stream, R.pty2.stream]
    set_tty_mode(fds[0], R.cooked, case["modes"][0])
    set_tty_mode(fds[1], R.cooked2, case["modes"][1])
    fcntl.fcntl(fds[1], fcntl.F_SETFL, fcntl.fcntl(fds[1], fcntl.F_GETFL) | os.O_APPEND)
    before = [(termios.tcgetattr(fd), fcntl.fcntl(fd, fcntl.F_GETFL)) for fd in fds]

    def make(stream, fd):
        if case["what"] == "cbreak":
            return Cbreak(stream)
        if case["what"] == "nonblocking":
            return Nonblocking(stream)
        attrs = termios.tcgetattr(fd)
        attrs[3] &= ~termios.ECHO
        return Termmode(stream, attrs)
    problems = []
    try:
        cms = [make(streams[0], fds[0]), make(streams[1], fds[1])]
        for cm in cms:
            cm.__enter__()
        order = [0, 1] if case["exit_order"] == "fifo" else [1, 0]
        for i in order:
            cms[i].__exit__(None, None, None)
    except Exception as ex:  # noqa
        problems.append("raised %r" % (ex,))
    after = [(termios.tcgetattr(fd), fcntl.fcntl(fd, fcntl.F_GETFL)) for fd in fds]
    for i in (0, 1):
        if after[i][0] != before[i][0]:
            problems.append("terminal %d: tty attributes not its own again" % i)
        if after[i][1] != before[i][1]:
            problems.append("terminal %d: file status flags %o, were %o" % (i, after[i][1], before[i][1]))
    ctx.judge(not problems, case, ("C12", "overlap", repr(case)), "C12:overlapping-contexts-on-two-terminals",
              "each terminal as before", problems, nontrivial=True)
    ctx.count("overlap_histories")
    termios.tcsetattr(fds[0], termios.TCSANOW, R.cooked)
    termios.tcsetattr(fds[1], termios.TCSANOW, R.cooked2)
    fcntl.fcntl(fds[0], fcntl.F_SETFL, R.flags0)


def run_storm(ctx, case):
    """real SIGINTs (default handler, sigint_event off) sent by ANOTHER PROCESS a random number of
    microseconds after a key arrived (a thread of this process could only send while the
    requesting thread has let go of the interpreter lock, i.e. hardly ever at the interesting
    moments), the application surviving them with try/except around each request: between
    requests the stream is never left non-blocking"""
    import random
    import struct
    import traceback
    from curtsies import Input
    R = rig()
    fd = R.pty.slave
    set_tty_mode(fd, R.cooked, "cooked")
    R.pty.drain_slave()
    signal.signal(signal.SIGINT, R.default_sigint)
    signal.set_wakeup_fd(-1)
    rng = random.Random(case["seed"])
    inp = Input(R.pty.stream, sigint_event=False)
    base_flags = fcntl.fcntl(fd, fcntl.F_GETFL)
    R.fp.pause()         # real signals: no instrumentation callbacks in the way (see inject.pause)
    to_child_r, to_child_w = os.pipe()
    from_child_r, from_child_w = os.pipe()
    parent = os.getpid()
    child = os.fork()
    if child == 0:
        # sender: for each 8-byte delay read, spin that long, signal the parent, acknowledge
        try:
            signal.signal(signal.SIGINT, signal.SIG_IGN)
            os.close(to_child_w)
            os.close(from_child_r)
            while True:
                b = os.read(to_child_r, 8)
                if len(b) < 8:
                    break
                t = struct.unpack("d", b)[0]      # a point on the system-wide monotonic clock
                while time.perf_counter() < t:
                    pass
                os.kill(parent, signal.SIGINT)
                os.write(from_child_w, b"k")
        finally:
            os._exit(0)
    os.close(to_child_r)
    os.close(from_child_w)
    os.set_blocking(from_child_r, False)
    hits = {"interrupted_requests": 0, "late": 0, "left_nonblocking": 0, "trials": 0}
    witness = None

    try:
        with inp:
            for k in range(case["trials"]):
                st = {"started": False, "requested": False, "acked": False, "settled": False}
                while not st["settled"]:
                    # a late signal may raise anywhere in here: the trial resumes where it was
                    try:
                        if not st["started"]:
                            st["started"] = True
                            os.write(R.pty.master, b"k")
                            # the request starts 400 us from now (time for the sender to wake up) and the
                            # signal is due a random number of microseconds into it
                            st["t_start"] = time.perf_counter() + 0.0004
                            os.write(to_child_w, struct.pack("d", st["t_start"] + rng.random() * case["max_delay_us"] * 1e-6))
                        if not st["requested"]:
                            st["requested"] = True
                            tb = None
                            while time.perf_counter() < st["t_start"]:
                                pass
                            try:
                                inp.send(0.02)
                            except KeyboardInterrupt:
                                hits["interrupted_requests"] += 1
                                tb = traceback.format_exc().splitlines()[-6:]
                            # between requests
                            fl = fcntl.fcntl(fd, fcntl.F_GETFL)
                            if fl & os.O_NONBLOCK and not base_flags & os.O_NONBLOCK:
                                hits["left_nonblocking"] += 1
                                if witness is None:
                                    hits["where_the_interrupt_landed"] = tb
                                    witness = k
                                fcntl.fcntl(fd, fcntl.F_SETFL, base_flags)
                        deadline = time.monotonic() + 2
                        while not st["acked"] and time.monotonic() < deadline:
                            try:
                                st["acked"] = os.read(from_child_r, 1) == b"k"
                            except BlockingIOError:
                                pass
                        time.sleep(0.0002)       # a pending handler runs here at the latest
                        while inp.send(0) is not None:
                            pass
                        st["settled"] = True
                    except KeyboardInterrupt:
                        hits["late"] += 1
                hits["trials"] += 1
    except KeyboardInterrupt:
        hits["late"] += 1
    finally:
        try:
            os.close(to_child_w)
            os.waitpid(child, 0)
        except (OSError, KeyboardInterrupt):
            pass
        for f in (from_child_r,):
            try:
                os.close(f)
            except OSError:
                pass
        R.fp.resume()
    hits.pop("_seen", None)
    for k, v in hits.items():
        if isinstance(v, int):
            ctx.count("storm_" + k, v)
    ctx.judge(hits["left_nonblocking"] == 0, case, ("C12", "storm", case["seed"]),
              "C12:interrupted-while-entering-nonblocking", "stream blocking between requests",
              hits, {"first_trial": witness}, nontrivial=hits["interrupted_requests"] > 0)
    termios.tcsetattr(fd, termios.TCSANOW, R.cooked)
    fcntl.fcntl(fd, fcntl.F_SETFL, R.flags0)


def run(ctx):
    rng = ctx.rng
    n = 0
    for sc in matrix(rng, ctx.quick):
        n += 1
        if ctx.mine(n):
            enumerate_crashes(ctx, sc, lines=False, ops=True)
            ctx.count("matrix_scenarios")
    total_lines = 0
    for i, sc in enumerate(line_scenarios(rng, ctx.quick)):
        # line-level crash points of one scenario are spread over the shards
        total_lines += enumerate_crashes(ctx, sc, lines=True, ops=False, mine=ctx.mine)
    if ctx.shard[0] == 0:
        ctx.notes["line_level_events_in_bodies"] = total_lines
    ctx.exhaustive = True
    if ctx.shard[0] == 0:
        for ise in (False, True):
            for mode in ("cooked", "raw"):
                run_nested_inputs(ctx, {"kind": "nested-inputs", "inner_sigint_event": ise, "tty": mode})
        run_cycles(ctx, {"kind": "cycles", "n": 100 if ctx.quick else 1000})
        for stream_ in ("pipe-read", "pipe-write", "devnull", "socket"):
            for flags_ in (0, os.O_NONBLOCK, os.O_APPEND):
                for raises_ in (None, "TimeoutError", "ZeroDivisionError"):
                    for uses_ in (1, 2):
                        run_nonblocking_streams(ctx, {"kind": "nonblocking-streams", "stream": stream_, "flags": flags_,
                                                      "raises": raises_, "uses": uses_})
        for what in ("cbreak", "termmode", "nonblocking"):
            for eo in ("fifo", "lifo"):
                for modes in (["cooked", "raw"], ["noecho", "cooked"], ["vmin", "noisig"]):
                    run_overlap(ctx, {"kind": "overlap", "what": what, "exit_order": eo, "modes": modes})
        import itertools as _it
        for n_uses in (2, 3):
            for uses in _it.product(("main", "thread"), repeat=n_uses):
                for se in (False, True):
                    run_reuse(ctx, {"kind": "reuse", "uses": list(uses), "sigint_event": se,
                                    "tty": rng.choice(TTY_MODES)})
    for _ in range(ctx.share(24 if ctx.quick else 1500)):
        run_sigint(ctx, {"kind": "sigint", "sigint_event": rng.random() < .5, "app": rng.random() < .5,
                         "delay": rng.choice([0.0, 0.001, 0.005, 0.02]) + rng.random() * 0.03,
                         "tty": rng.choice(TTY_MODES)})
    for _ in range(ctx.share(4 if ctx.quick else 160)):
        run_storm(ctx, {"kind": "storm", "trials": 500 if ctx.quick else 2000, "max_delay_us": rng.choice([60, 120, 250]),
                        "seed": rng.randrange(1 << 30)})
    if _RIG[0] is not None:
        _RIG[0].close()
        _RIG[0] = None
