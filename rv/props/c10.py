"""C10 - width and width_aware_slice measure and cut by terminal columns."""
import itertools

from .. import obs
from ..model import cols

LEVEL = "exploration"
SUITE_MONITOR = True      # also judge the repository's own tests/doctests through rv/monitors.py
RULE = ("Every string up to length N (3 quick, 5 thorough) over {2 narrow, 2 double-width, 1 "
        "combining} characters x every partition into runs (plus variants with empty runs) is "
        "built through the public API; f.width, width_at_offset(n) for every n and "
        "width_aware_slice(a:b) for every 0 <= a <= b <= width+2 are executed and compared with a "
        "column-expanded cell model whose widths come from the pure-Python wcwidth package. "
        "Random longer strings on top. distinct = distinct (runs, operation, arguments); "
        "non-trivial = the string has at least one character.")
FLOOR = 2000
SHARDS = {"quick": 4, "thorough": 16}
ASSUMPTIONS = ["wcwidth (pure Python) and cwcwidth agree on the alphabet used (asserted at start-up)",
               "zero-width characters are compared up to attachment: those following a character "
               "lying wholly inside the range must be kept, others are don't-care"]


def partitions(text, with_empty):
    L = len(text)
    for cuts in range(1 << max(0, L - 1)):
        runs, start = [], 0
        for i in range(1, L):
            if cuts >> (i - 1) & 1:
                runs.append(text[start:i])
                start = i
        runs.append(text[start:])
        if L == 0:
            runs = []
        yield runs
        if with_empty and cuts % 3 == 0:
            yield [""] + runs
            yield runs + [""]
            if len(runs) > 1:
                yield runs[:1] + [""] + runs[1:]


def spec_of(runs):
    return [[t, dict(obs.PALETTE[(i + 1) % len(obs.PALETTE)])] for i, t in enumerate(runs)]


def classify(case, exc=None):
    runs = [t for t, _ in case["spec"]]
    if case.get("op") == "slice":
        col = 0
        for t in runs:
            if t and cols.w(t[0]) == 0 and col > 0 and col in (case["a"], case["b"]) and case["a"] < case["b"]:
                return "C10:combining-character-opening-a-run-at-a-slice-edge"
            col += sum(max(cols.w(c), 0) for c in t)
    if any(t and all(cols.w(c) == 0 for c in t) for t in runs):
        return "C10:zero-width-only-run"
    if case.get("op") == "slice" and case["a"] == case["b"]:
        cells = obs.spec_cells(case["spec"])
        _, its = cols.items(cells)
        if any(cs < case["a"] < ce for cs, ce, _, _ in its):
            return "C10:empty-range-inside-wide-char"
    return "C10:" + case.get("op", "width")


def run_case(ctx, case):
    try:
        _run_case(ctx, case)
    except obs.ObservationFailed as ex:
        ctx.judge(False, case, mech="C10:incoherent-result", got=str(ex))


def _run_case(ctx, case):
    if case.get("twin_first"):
        _run_case(ctx, dict(case, spec=case["twin_first"], twin_first=None))
    spec = case["spec"]
    F = obs.spec_cells(spec)
    f = obs.build(spec)
    op = case["op"]
    nontrivial = bool(F)
    mech = classify(case)
    if op == "width":
        want = cols.width(F)
        try:
            got = f.width
            got2 = f.width
        except Exception as ex:  # noqa
            ctx.judge(False, case, mech=mech, expected=want, got=repr(ex), nontrivial=nontrivial)
            return
        ctx.judge(got == want and got2 == want, case, mech=mech, expected=want, got=[got, got2],
                  nontrivial=nontrivial)
    elif op == "offset":
        n = case["n"]
        want = cols.width(F[:n])
        try:
            got = f.width_at_offset(n)
        except Exception as ex:  # noqa
            ctx.judge(False, case, mech=mech, expected=want, got=repr(ex), nontrivial=nontrivial)
            return
        ctx.judge(got == want, case, mech=mech, expected=want, got=got, nontrivial=nontrivial)
    elif op == "slice-after-interrupted-slice":
        # another range is cut; then the cutting of [a, b) is interrupted (Ctrl-C) at its k-th
        # statement, for every k; then [a, b) is asked for again: same answer as ever
        a, b = case["a"], case["b"]
        E = cols.expected_slice(F, a, b)
        for k_ in range(1, 80):
            g = obs.build(spec)
            try:
                g.width_aware_slice(slice(*case["other"]))
                if not obs.interrupted_call(lambda: g.width_aware_slice(slice(a, b)), k_):
                    break
                got = obs.cells(g.width_aware_slice(slice(a, b)))
            except Exception as ex:  # noqa
                ctx.judge(False, case, mech="C10:slice-after-interrupted-slice", got=repr(ex), detail={"interrupted at statement": k_})
                return
            _, G = cols.group(got)
            if [x[0] for x in G] != [e[0] for e in E]:
                ctx.judge(False, case, mech="C10:slice-after-interrupted-slice", expected=obs.show([e[0] for e in E]),
                          got=obs.show(got), detail={"interrupted at statement": k_})
                return
            ctx.count("slices_interrupted_at_a_statement")
        ctx.judge(True, case, nontrivial=nontrivial)
    elif op == "wrapped-widths":
        # the lines width_aware_splitlines hands out are FmtStrs like any other: their .width is
        # the number of columns their cells take (padding spaces included)
        try:
            lines = list(f.width_aware_splitlines(case["columns"]))
            got = [l.width for l in lines]
            want = [cols.width(obs.cells(l)) for l in lines]
        except Exception as ex:  # noqa
            ctx.judge(False, case, mech="C10:width-of-wrapped-line", got=repr(ex))
            return
        ctx.judge(got == want, case, mech="C10:width-of-wrapped-line", expected=want, got=got, nontrivial=nontrivial)
    elif op == "sequence":
        W = cols.width(F)
        for a, b in case["slices"]:
            E = cols.expected_slice(F, a, b)
            try:
                got = obs.cells(f.width_aware_slice(slice(a, b)))
            except Exception as ex:  # noqa
                ctx.judge(False, case, mech="C10:slice-sequence", expected=obs.show([e[0] for e in E]), got=repr(ex),
                          detail=[a, b])
                return
            lead, G = cols.group(got)
            if [g[0] for g in G] != [e[0] for e in E]:
                ctx.judge(False, case, mech="C10:slice-sequence", expected=obs.show([e[0] for e in E]),
                          got=obs.show(got), detail=[a, b])
                return
        ctx.judge(True, case, nontrivial=nontrivial)
    elif op == "slice":
        a, b = case["a"], case["b"]
        W = cols.width(F)
        E = cols.expected_slice(F, a, b)
        want_w = max(0, min(b, W) - min(a, W))
        try:
            r = f.width_aware_slice(slice(a, b))
            if (a + b) % 3 == 0:
                r = f.width_aware_slice(slice(a, b))     # asked again: nothing may be carried over
            got = obs.cells(r)
        except Exception as ex:  # noqa
            ctx.judge(False, case, mech=mech, expected=obs.show([e[0] for e in E]), got=repr(ex),
                      nontrivial=nontrivial)
            return
        lead, G = cols.group(got)
        ok = [g[0] for g in G] == [e[0] for e in E] and cols.width(got) == want_w
        if lead and a > 0:
            ok = False        # combining characters opening the result belong to column a-1, outside the range
        if ok:
            for (gc, gf), (ec, ef, allowed) in zip(G, E):
                if ef is not None and gf != ef:
                    ok = False
                if ef is None and gf and gf != allowed[:len(gf)]:
                    ok = False
        # zero-width characters are never invented
        zw_in = [c for c in F if cols.w(c[0]) == 0]
        zw_out = [c for c in got if cols.w(c[0]) == 0]
        it = iter(zw_in)
        if not all(any(c == d for d in it) for c in zw_out):
            ok = False
        ctx.judge(ok, case, mech=mech, expected=[obs.show([e[0] for e in E]), want_w],
                  got=[obs.show(got), cols.width(got)], nontrivial=nontrivial)
        if ok:
            try:
                rw = r.width
            except Exception as ex:  # noqa
                rw = repr(ex)
            if rw != want_w:
                m2 = "C10:zero-width-only-run" if any(
                    ch.s and all(cols.w(c) == 0 for c in ch.s) for ch in getattr(r, "chunks", [])) else "C10:slice-width"
                ctx.judge(False, case, mech=m2, expected=want_w, got=rw)
    else:
        raise ValueError(op)


def all_ops(ctx, spec):
    F = obs.spec_cells(spec)
    W = cols.width(F)
    run_case(ctx, {"op": "width", "spec": spec})
    if W >= 2:
        run_case(ctx, {"op": "wrapped-widths", "spec": spec, "columns": 2 + (W % 3)})
    for n in range(0, len(F) + 2):
        run_case(ctx, {"op": "offset", "spec": spec, "n": n})
    for a in range(0, W + 3):
        for b in range(a, W + 3):
            run_case(ctx, {"op": "slice", "spec": spec, "a": a, "b": b})
            if W >= 2 and (a * 7 + b * 3 + len(F)) % 41 == 0:
                run_case(ctx, {"op": "slice-after-interrupted-slice", "spec": spec, "a": a, "b": b,
                               "other": [max(0, a - 1), min(W, b + 1)]})


def run(ctx):
    ok = cols.agreed(cols.SYMBOLS)
    if ok != cols.SYMBOLS:
        ctx.inconclusive_because("wcwidth and cwcwidth disagree on the alphabet: %r" % (
            set(cols.SYMBOLS) - set(ok),))
        return
    N = 3 if ctx.quick else 5
    n = 0
    for L in range(0, N + 1):
        for chars in itertools.product(cols.SYMBOLS, repeat=L):
            text = "".join(chars)
            for runs in partitions(text, with_empty=True):
                n += 1
                if ctx.mine(n):
                    all_ops(ctx, spec_of(runs))
                    ctx.count("layouts_enumerated")
    ctx.exhaustive = True
    ctx.notes["max_length_enumerated"] = N
    rng = ctx.rng
    alpha = cols.SYMBOLS + (["c", "你", "̀"] if cols.agreed(["c", "你", "̀"]) == ["c", "你", "̀"] else [])
    # zero-width characters that are not 'combining' in the Unicode sense (canonical combining
    # class 0): a Thai vowel sign, a Devanagari one, ZERO WIDTH JOINER
    alpha = alpha + cols.agreed(["\u0e31", "\u0941", "\u200d"])
    for _ in range(ctx.share(300 if ctx.quick else 20000)):
        spec = obs.rand_spec(rng, 5, 4, alpha, palette=obs.PALETTE)
        all_ops(ctx, spec)
        ctx.count("random_layouts")
        W = cols.width(obs.spec_cells(spec))
        for _ in range(3):
            sl = []
            for _ in range(rng.randint(2, 5)):
                a = rng.randint(0, W + 1)
                sl.append([a, rng.randint(a, W + 2)])
            case = {"op": "sequence", "spec": spec, "slices": sl}
            tw = obs.twin(spec, rng)
            if tw is not None:
                case["twin_first"] = tw
            run_case(ctx, case)
            ctx.count("slice_sequences")
