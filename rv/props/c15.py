"""C15 - str methods on a FmtStr agree with str on its text."""
import re

from .. import obs

LEVEL = "exploration"
SUITE_MONITOR = True      # also judge the repository's own tests/doctests through rv/monitors.py
RULE = ("Random and enumerated run layouts (>= 1 run) over a small alphabet (letters, space, "
        "comma, newline, tab, sharp s) x a curated list of str methods x an argument pool "
        "(separators present/absent/adjacent/at the ends, widths below/at/above the length, fill "
        "characters). The real method is called on the FmtStr and the same method on its text: "
        "text (or non-text answer) must agree; split/splitlines pieces must carry, position by "
        "position, the formatting of the characters they came from; other text results must "
        "carry every attribute value shared by all original characters (padding added by "
        "ljust/rjust without fill character only needs to be free of invented formatting); no "
        "result cell may show an attribute value no original character had. Nothing is demanded "
        "when str itself raises. distinct = distinct (layout, method, arguments); non-trivial = "
        "text has at least one character.")
FLOOR = 2000
SHARDS = {"quick": 4, "thorough": 16}
ASSUMPTIONS = ["line boundaries in generated text are \\n only",
               "regex patterns in the pool cannot match the empty string; capture groups are ignored (reference = spans of re.finditer)",
               "split() without separator, maxsplit and encode are outside the statement and not generated"]

SEPS = [" ", ",", "a", "ab", ", ", "\n", "zz", "  ", "b,", ".", "a+", ",|b", "[ab]", "(a)"]
REGEXES = [r"\s+", "a+", ",|b", "(a)(b)?", r"[ ,]+", r"\n", ".", "[ab]", "(a)", ","]
DELEGATED = [
    ("upper", ()), ("lower", ()), ("title", ()), ("swapcase", ()), ("capitalize", ()),
    ("casefold", ()), ("strip", ()), ("strip", ("a",)), ("lstrip", ()), ("lstrip", ("ab",)),
    ("rstrip", ()), ("rstrip", ("b ",)), ("center", (7,)), ("center", (2,)), ("center", (8, "*")),
    ("zfill", (6,)), ("expandtabs", (4,)), ("expandtabs", ()), ("replace", ("a", "xx")),
    ("replace", ("ab", "")), ("replace", (" ", "_")), ("removeprefix", ("a",)),
    ("removesuffix", ("b",)), ("find", ("b",)), ("rfind", ("a",)), ("index", ("a",)),
    ("count", ("a",)), ("count", ("",)), ("startswith", ("a",)), ("endswith", ("b",)),
    ("isalpha", ()), ("isspace", ()), ("isdigit", ()), ("partition", ("a",)),
    ("rpartition", (" ",)), ("rsplit", ("a",)), ("rsplit", ()), ("rsplit", (",", 1)),
    ("isupper", ()), ("islower", ()), ("encode", ()), ("encode", ("ascii", "replace")), ("isascii", ()),
]


def shared_of(F):
    """attribute values every original character has -> (fg or None, bg or None, styles)"""
    if not F:
        return None, None, frozenset()
    fg = F[0][1] if all(c[1] == F[0][1] for c in F) else None
    bg = F[0][2] if all(c[2] == F[0][2] for c in F) else None
    st = frozenset.intersection(*[c[3] for c in F])
    return fg, bg, st


def carries(cell, shared):
    fg, bg, st = shared
    return (fg is None or cell[1] == fg) and (bg is None or cell[2] == bg) and st <= cell[3]


def invented(cell, F):
    if not F:
        return False        # not judged on originals without characters
    if cell[1] is not None and all(c[1] != cell[1] for c in F):
        return True
    if cell[2] is not None and all(c[2] != cell[2] for c in F):
        return True
    return any(all(s not in c[3] for c in F) for s in cell[3])


def classify(case, problems):
    spec = case["spec"]
    text = "".join(t for t, _ in spec)
    if case["method"] == "splitlines" and any(c in text for c in "\r\x0b\x0c\x1c\x1d\x1e\x85\u2028\u2029"):
        return "C15:splitlines-other-line-boundaries"
    if case["method"] == "splitlines" and case["args"] and case["args"][0]:
        return "C15:splitlines-keepends"
    if case["method"] in ("partition", "rpartition") and any("not a FmtStr" in p for p in problems):
        return "C15:tuple-members-unformatted"
    if any("shared" in p for p in problems) and spec and spec[0][0] == "" and len(spec) > 1:
        return "C15:shared-formatting-lost-after-leading-empty-run"
    return "C15:" + case["method"]


def pieces_positions(text, method, args, kwargs):
    """-> list of (start, end) of the pieces in the original text, or None if str raises."""
    if method == "split":
        if kwargs.get("regex"):
            ms = list(re.finditer(args[0], text))
            starts = [0] + [m.end() for m in ms]
            ends = [m.start() for m in ms] + [len(text)]
            return list(zip(starts, ends))
        sep = args[0]
        parts = text.split(sep)
        out, pos = [], 0
        for p in parts:
            out.append((pos, pos + len(p)))
            pos += len(p) + len(sep)
        return out
    if method == "splitlines":
        keep = bool(args and args[0])
        parts = text.splitlines(True)
        out, pos = [], 0
        for p in parts:
            end = pos + len(p)
            out.append((pos, end if keep else pos + len(p.splitlines()[0])))
            pos = end
        return out
    raise ValueError(method)


def run_control_text(ctx, case):
    """text holding ESC / U+009B (control characters like any other as far as str methods are
    concerned): a delegated method's result is the str method's result, not that text parsed as
    markup. Judged on the result's text and length only (the cell observer is for text without
    escape introducers)."""
    spec, method, args = case["spec"], case["method"], tuple(case.get("args", ()))
    text = "".join(t for t, _ in spec)
    f = obs.build(spec)
    if f.copy().s != text:
        return          # construction itself read an escape sequence in a run's text: not this check's subject
    try:
        ref = getattr(text, method)(*args)
    except Exception:
        return
    try:
        r = getattr(f, method)(*args)
        got = [r.s, len(r)] if hasattr(r, "s") else r
    except Exception as ex:  # noqa
        got = repr(ex)
    want = [ref, len(ref)] if isinstance(ref, str) else ref
    ctx.judge(got == want, case, ("C15", "control", repr(case)),
              "C15:filled-padding-parsed-as-markup" if method in ("ljust", "rjust") else "C15:text-result-parsed-as-markup", want, got)


def run_case(ctx, case):
    if case.get("kind") == "control-text":
        return run_control_text(ctx, case)
    if case.get("method") == "join" and "sep" in case:
        return run_join(ctx, case)
    try:
        _run_case(ctx, case)
    except obs.ObservationFailed as ex:
        ctx.judge(False, case, mech="C15:incoherent-result", got=str(ex))


def _run_case(ctx, case):
    from curtsies.formatstring import FmtStr
    if case.get("twin_first"):
        _run_case(ctx, dict(case, spec=case["twin_first"], twin_first=None))
    spec, method = case["spec"], case["method"]
    args, kwargs = tuple(case.get("args", ())), dict(case.get("kwargs", {}))
    F = obs.spec_cells(spec)
    text = obs.text_of(F)
    f = obs.build(spec)
    nontrivial = bool(F)
    problems = []
    # reference
    try:
        if method in ("split", "splitlines"):
            pos = pieces_positions(text, method, args, kwargs)
            ref = [text[a:b] for a, b in pos]
        else:
            ref = getattr(text, method)(*args)
    except Exception:
        ctx.count("str_itself_raises_not_judged")
        return
    try:
        bound = getattr(f, method)
        if len(text) % 3 == 0:
            getattr(f, "swapcase"), getattr(f, "lower")      # other methods looked up before the call
        r = bound(*args, **kwargs)
        if len(text) % 2:
            r = getattr(f, method)(*args, **kwargs)      # asked again: same answer expected
    except Exception as ex:  # noqa
        ctx.judge(False, case, mech=classify(case, []), expected=ref, got=repr(ex),
                  nontrivial=nontrivial)
        return
    shared = shared_of(F)

    def check_text_result(x, want_text, padding=()):
        if not isinstance(x, FmtStr):
            problems.append("result %r is not a FmtStr" % (x,))
            return
        cs = obs.cells(x)
        try:
            if x.s != want_text or len(x) != len(want_text):
                problems.append("own views: .s %r len %r, str gives %r" % (x.s, len(x), want_text))
                return
        except Exception as ex:  # noqa
            problems.append("own views raise %r" % (ex,))
            return
        if obs.text_of(cs) != want_text:
            problems.append("text %r, str gives %r" % (obs.text_of(cs), want_text))
            return
        for i, c in enumerate(cs):
            if i not in padding and F and not carries(c, shared):
                problems.append("character %d %s lacks shared formatting %r" % (i, obs.show([c]), shared))
                break
        for c in cs:
            if invented(c, F):
                problems.append("invented formatting on %s" % obs.show([c]))
                break

    if method in ("split", "splitlines"):
        if not isinstance(r, list) or not all(isinstance(x, FmtStr) for x in r):
            problems.append("result is not a list of FmtStr")
        else:
            got = [obs.cells(x) for x in r]
            if [obs.text_of(g) for g in got] != ref:
                problems.append("texts %r, str gives %r" % ([obs.text_of(g) for g in got], ref))
            else:
                for g, (a, b) in zip(got, pos):
                    if g != F[a:b]:
                        problems.append("piece %r does not carry its characters' formatting: %s vs %s" % (
                            obs.text_of(g), obs.show(g), obs.show(F[a:b])))
                        break
    elif method in ("ljust", "rjust"):
        n = len(ref) - len(text)
        padding = ()
        if len(args) == 1 and n > 0:
            padding = range(len(text), len(ref)) if method == "ljust" else range(0, n)
        check_text_result(r, ref, padding)
        if len(args) == 1 and isinstance(r, FmtStr) and not problems:
            cs = obs.cells(r)
            kept = cs[:len(text)] if method == "ljust" else cs[n if n > 0 else 0:]
            # the original characters keep their text order and at least the shared formatting
            if obs.text_of(kept) != text:
                problems.append("original characters moved")
    elif isinstance(ref, str):
        check_text_result(r, ref)
    elif isinstance(ref, list) and all(isinstance(x, str) for x in ref):
        if not isinstance(r, list) or len(r) != len(ref):
            problems.append("list result %r, str gives %r" % (r, ref))
        else:
            for x, w in zip(r, ref):
                check_text_result(x, w)
    elif isinstance(ref, tuple):
        got = tuple(x.s if isinstance(x, FmtStr) else x for x in r) if isinstance(r, tuple) else r
        if got != ref:
            problems.append("answer %r, str gives %r" % (r, ref))
        elif all(isinstance(x, str) for x in ref):
            # the members of the tuple are text results like any other
            for x, w in zip(r, ref):
                if w:
                    check_text_result(x, w)
    else:
        if r != ref or type(r) is not type(ref):
            problems.append("answer %r, str gives %r" % (r, ref))
    ctx.judge(not problems, case, mech=classify(case, problems), expected=ref,
              got=repr(r)[:300], detail=problems[:3], nontrivial=nontrivial)
    if obs.cells(f) != F:
        ctx.judge(False, case, mech="C15:operand-changed")


def run_join(ctx, case):
    """native join: same text as str.join on the plain texts, for any iterable of items"""
    sep, items, how = case["sep"], case["items"], case["iterable"]
    vsep = obs.build(sep)
    vals = [i if isinstance(i, str) else obs.build(i) for i in items]
    texts = [i if isinstance(i, str) else obs.text_of(obs.spec_cells(i)) for i in items]
    want_text = obs.text_of(obs.spec_cells(sep)).join(texts)
    want = []
    for k, i in enumerate(items):
        if k:
            want += obs.spec_cells(sep)
        want += obs.observe(i) if isinstance(i, str) else obs.spec_cells(i)
    if how == "fmtstr":
        # the iterable is a FmtStr: its characters are the items, as for str.join(str)
        whole = obs.build(items[0]) if items and not isinstance(items[0], str) else None
        if whole is None:
            return
        chars = obs.spec_cells(items[0])
        want_text = obs.text_of(obs.spec_cells(sep)).join(c[0] for c in chars)
        want = []
        for k, c in enumerate(chars):
            if k:
                want += obs.spec_cells(sep)
            want.append(c)
        vals = whole
    arg = {"list": lambda: vals, "tuple": lambda: tuple(vals), "iter": lambda: iter(vals),
           "generator": lambda: (v for v in vals), "map": lambda: map(lambda v: v, vals),
           "fmtstr": lambda: vals}[how]()
    try:
        r = vsep.join(arg)
    except Exception as ex:  # noqa
        ctx.judge(False, case, mech="C15:join", expected=want_text, got=repr(ex))
        return
    problems, got = obs.result_problems(r, want)
    if not problems and how == "list":
        # the operands are still what they were: joining them again gives the same
        try:
            p2, g2 = obs.result_problems(vsep.join(vals), want)
            if p2:
                problems = ["second join of the same operands: " + "; ".join(p2)]
                got = g2
        except Exception as ex:  # noqa
            problems = ["second join raised %r" % (ex,)]
    ctx.judge(not problems, case, ("C15", "join", repr(case)), "C15:join", want_text,
              obs.show(got) if got is not None else None, problems, nontrivial=bool(want))


def calls_for(text):
    L = len(text)
    out = []
    for sep in SEPS:
        out.append(("split", (sep,), {}))
    for rx in REGEXES:
        out.append(("split", (rx,), {"regex": True}))
    # the same string once more in the other mode (literal after regex and back)
    out.append(("split", (".",), {}))
    out.append(("split", ("a+",), {}))
    out.append(("split", (",",), {"regex": True}))
    out.append(("splitlines", (), {}))
    out.append(("splitlines", (False,), {}))
    out.append(("splitlines", (True,), {}))
    for w in (0, max(0, L - 1), L, L + 1, L + 3):
        for m in ("ljust", "rjust"):
            out.append((m, (w,), {}))
            out.append((m, (w, "*"), {}))
    out.append(("ljust", (L + 2, "ab"), {}))
    for m, a in DELEGATED:
        out.append((m, a, {}))
    return out


ALPHA = ["a", "b", "A", " ", ",", "\n", "\t", "ß", "1", ".", "+", "\n", "\r", "\r\n", "\x0b", "\x0c", "\x1c", "\x85", "\u2028"]


def run(ctx):
    rng = ctx.rng
    n = 0
    # enumerated small layouts: all texts <= 3 over a reduced alphabet x 2 partitions
    enum_alpha = "ab ,\n"
    import itertools
    maxlen = 3 if ctx.quick else 4
    for L in range(0, maxlen + 1):
        for chars in itertools.product(enum_alpha, repeat=L):
            text = "".join(chars)
            n += 1
            if not ctx.mine(n):
                continue
            specs = [[[text, {"fg": 31, "bold": True}]],
                     [[text[:1], {"fg": 31, "bold": True}], [text[1:], {"fg": 31, "bg": 44}]],
                     [["", {}], [text, {"underline": True}]],
                     [[text[:1], {"fg": 32, "bold": True}], ["", {"bg": 45}], [text[1:], {"fg": 32, "bold": True}]]]
            for spec in specs:
                for m, a, kw in calls_for(text):
                    run_case(ctx, {"spec": spec, "method": m, "args": list(a), "kwargs": kw})
            ctx.count("texts_enumerated")
    if ctx.shard[0] == 0:
        for spec in ([["caf\x9b", {}], [" au lait", {"bold": True}]], [["\x1b", {"fg": 31}], ["[1mA ", {"fg": 31}]],
                     [["a\x9b1", {"fg": 34}], ["m", {"fg": 34}]]):
            for m, a in (("upper", ()), ("strip", ()), ("center", (12,)), ("replace", ("a", "b")), ("lower", ()),
                         ("zfill", (12,)), ("title", ()), ("ljust", (16, "*")), ("rjust", (16, "[")), ("ljust", (3, "*"))):
                run_case(ctx, {"kind": "control-text", "spec": spec, "method": m, "args": list(a)})
                ctx.count("control_text_calls")
    ctx.exhaustive = True
    ctx.notes["max_length_enumerated"] = maxlen
    common = [{}, {"fg": 31}, {"bold": True, "bg": 44}]
    for _ in range(ctx.share(400 if ctx.quick else 80000)):
        base = dict(rng.choice(common))
        spec = []
        for _ in range(rng.randint(1, 4)):
            t = "".join(rng.choice(ALPHA) for _ in range(rng.randint(0, 4)))
            a = dict(base)
            a.update(rng.choice(obs.PALETTE) if rng.random() < .6 else {})
            spec.append([t, a])
        text = "".join(t for t, _ in spec)
        tw = obs.twin(spec, rng)
        for m, a, kw in calls_for(text):
            case = {"spec": spec, "method": m, "args": list(a), "kwargs": kw}
            if tw is not None and rng.random() < .2:
                case["twin_first"] = tw
            run_case(ctx, case)
        ctx.count("random_layouts")
        items = [rng.choice(["", "x", "yz"]) if rng.random() < .4 else obs.rand_spec(rng, 2, 3, "ab ", palette=obs.PALETTE)
                 for _ in range(rng.randint(0, 4))]
        run_join(ctx, {"method": "join", "sep": obs.rand_spec(rng, 2, 2, ",-", palette=obs.PALETTE), "items": items,
                       "iterable": rng.choice(["list", "tuple", "iter", "generator", "map", "fmtstr"])})
        ctx.count("joins")
