"""C05 - parsing a FmtStr's terminal string gives the same FmtStr back."""
from .. import obs
from ..model import sgr
from .c01 import attsets, ALPHABET

LEVEL = "exploration"
RULE = ("(a) round trip: FmtStr built from a run specification, str(f) parsed back with "
        "FmtStr.from_str and fmtstr(); the parsed value's cells must equal the specification's "
        "(every attribute set x a text containing newline/tab/wide characters, random multi-run "
        "strings). (b) grammar: random strings (text | ESC[ p1;..;pn m)* over the supported "
        "codes and the empty parameter list; the parsed value's cells must equal what the "
        "independent SGR interpreter displays for the string. distinct = distinct input "
        "strings; non-trivial = at least one character and one escape sequence.")
FLOOR = 1000
SHARDS = {"quick": 4, "thorough": 16}
ASSUMPTIONS = ["rv/model/sgr.py is the reference for what an ANSI terminal displays",
               "text free of ESC / 0x9B"]

CODES = [0, 1, 2, 3, 4, 5, 7] + list(range(30, 38)) + [39] + list(range(40, 48)) + [49]
TEXTS = ["a", "b", " ", "xyz", "\n", "a\nb", "\t", "一", "é́", "m", "[", "1;2", "~", "\r\n", "", "\x85", "p\x90q", "\x07"]


def parsed_cells(g):
    """cells of a parse result; falls back to the run list when the text itself holds
    escape characters (then the terminal string cannot be interpreted)."""
    return obs.cells(g)


def classify(s):
    # text pieces = s without SGR sequences
    import re
    text = re.sub(r"\x1b\[[0-9;]*m", "", s)
    if "\n" in text:
        return "C05:newline-in-text"
    return "C05:parse"


def judge_string(ctx, case, s, want):
    from curtsies.formatstring import FmtStr, fmtstr
    nontrivial = bool(want) and "\x1b" in s
    if case.get("interrupt_at"):
        # a Ctrl-C lands in the middle of parsing this very string (after another one has been
        # parsed); asked again, the parser must still give the right answer
        try:
            FmtStr.from_str(case.get("parsed_before", "\x1b[32mother\x1b[39m text"))
        except Exception:  # noqa
            pass
        if obs.interrupted_call(lambda: FmtStr.from_str(s), case["interrupt_at"]):
            ctx.count("parses_interrupted_at_a_statement")
    for name, fn in (("from_str", FmtStr.from_str), ("fmtstr", fmtstr)):
        try:
            g = fn(s)
            got = parsed_cells(g)
        except obs.ObservationFailed as e:
            ctx.judge(False, case, ("C05", name, s), classify(s), obs.show(want), str(e),
                      nontrivial=nontrivial)
            continue
        except Exception as e:  # noqa
            ctx.judge(False, case, ("C05", name, s), classify(s), obs.show(want), repr(e),
                      nontrivial=nontrivial)
            continue
        ctx.judge(got == want, case, ("C05", name, s), classify(s), obs.show(want),
                  [obs.show(got), s], detail=name, nontrivial=nontrivial)


def run_case(ctx, case):
    if "first_parse_interrupted_at" in case:
        return first_use_crash_points(ctx)
    if "spec" in case:
        f = obs.build(case["spec"])
        s = str(f)
        want = obs.spec_cells(case["spec"])
        # the terminal string must itself show the spec (C01's subject); when it does not, parsing it
        # cannot give the same FmtStr back either - reported here too, under its own mechanism
        if sgr.interpret(s)[0] != want:
            ctx.count("terminal_string_itself_wrong")
            ctx.judge(False, case, ("C05", "c01", s), "C05:terminal-string-does-not-show-the-value",
                      obs.show(want), obs.show(sgr.interpret(s)[0]), nontrivial=bool(want))
            return
        judge_string(ctx, case, s, want)
    else:
        s = case["string"]
        want, final, other = sgr.interpret(s)
        if other:
            raise ValueError("grammar produced a non-SGR string: %r" % s)
        judge_string(ctx, case, s, want)


def rand_grammar(rng):
    parts = []
    for _ in range(rng.randint(1, 7)):
        if rng.random() < .5:
            parts.append(rng.choice(TEXTS))
        else:
            n = rng.choice([0, 1, 1, 1, 2, 3])
            if rng.random() < .04:
                n = rng.randint(4, 40)          # one sequence switching a great many things
            parts.append("\x1b[" + ";".join(str(rng.choice(CODES)) for _ in range(n)) + "m")
    return "".join(parts)


FIRST_STRING = "\x1b[1;31mfirst\x1b[0m \x1b[44mparse\x1b[49m"


def _probe_strings():
    out = ["\x1b[%dmX\x1b[0mY" % c for c in CODES]
    out = [FIRST_STRING] + out + [FIRST_STRING]
    out += ["\x1b[1;31;44mA\x1b[39mB\x1b[49mC\x1b[mD", "p\x1b[4mq\nr\x1b[0ms", "\x1b[32m\x1b[7mz\x1b[0m\x1b[39m"]
    return out


def first_use_crash_points(ctx):
    """Fault enumeration over the FIRST parse of a process: for every statement of curtsies code
    it executes, a forked child (which has never parsed anything) takes a KeyboardInterrupt
    there - a Ctrl-C while an application starts up - and must parse correctly afterwards.
    Lazily built parser state must never be left half initialised."""
    from .. import inject
    from curtsies.formatstring import FmtStr

    def probe():
        bad = []
        for st in _probe_strings():
            want = sgr.interpret(st)[0]
            try:
                got = obs.cells(FmtStr.from_str(st))
            except Exception as ex:  # noqa
                got = repr(ex)
            if got != want:
                bad.append([st, obs.show(want), obs.show(got) if isinstance(got, list) else got])
        return bad
    n, results = inject.fork_crash_points(lambda: FmtStr.from_str(FIRST_STRING), probe, ctx.mine)
    if ctx.shard[0] == 0:
        ctx.notes["first_parse_statements"] = n
    for res in results:
        if res.get("error"):
            ctx.inconclusive_because("first-use child error: %s" % res["error"])
            continue
        if res["k"] == 0:
            if res["bad"]:
                ctx.inconclusive_because("first-use probe fails without any interruption: %r" % (res["bad"][:1],))
            continue
        case = {"first_parse_interrupted_at": res["k"], "where": res.get("where")}
        ctx.judge(not res["bad"], case, ("C05", "first-use", res["k"]),
                  "C05:half-initialised-after-interrupted-first-parse",
                  "every probe string parsed as the reference interpreter displays it", res["bad"][:3],
                  {"fired": res["fired"]}, nontrivial=res["fired"])
        ctx.count("first_use_crash_points")


def run(ctx):
    first_use_crash_points(ctx)
    tri = not ctx.quick
    n = 0
    for a in attsets(tri):
        n += 1
        if ctx.mine(n):
            run_case(ctx, {"spec": [["a\nb", a]]})
            run_case(ctx, {"spec": [["p", {"fg": 36}], ["q\tr一", a], ["", a], ["s", {"bold": True}]]})
            ctx.count("roundtrip_attribute_sets")
    ctx.exhaustive = True
    rng = ctx.rng
    for _ in range(ctx.share(4000 if ctx.quick else 600000)):
        run_case(ctx, {"spec": obs.rand_spec(rng, 5, 4, ALPHABET)})
        ctx.count("roundtrip_random")
    for _ in range(ctx.share(15000 if ctx.quick else 2000000)):
        case = {"string": rand_grammar(rng)}
        if rng.random() < .03:
            case["interrupt_at"] = rng.randint(1, 60)
            case["parsed_before"] = rand_grammar(rng)
        run_case(ctx, case)
        ctx.count("grammar_strings")
    # long texts: escape sequences placed around typical buffer sizes
    for _ in range(ctx.share(60 if ctx.quick else 3000)):
        parts = []
        for _ in range(rng.randint(1, 4)):
            size = rng.choice([255, 256, 511, 512, 1020, 1022, 1023, 1024, 1025, 2047, 2048, 4095, 4096, 8192])
            size += rng.randint(-4, 3)
            parts.append("".join(rng.choice("ab \n") for _ in range(max(0, size))))
            n = rng.choice([0, 1, 2])
            parts.append("\x1b[" + ";".join(str(rng.choice(CODES)) for _ in range(n)) + "m")
            parts.append(rng.choice(["x", "", "yz"]))
        run_case(ctx, {"string": "".join(parts)})
        ctx.count("long_grammar_strings")
