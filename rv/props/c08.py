"""C08 - Input returns every byte and triggered event exactly once, in order."""
import fcntl
import os
import signal
import threading
import time

from .. import plumbing, inject, keysengine
from ..model import inputq
from ..model.inputq import UNGET_ALPHABET
from ..model.keys import Facts, drive, Incomplete

LEVEL = "exploration"
RULE = ("Histories against a real Input over a byte-transparent pty, recorded at the client "
        "boundary (write with arrival confirmed by FIONREAD, unget, trigger calls with unique "
        "ids, SIGINT, request call/return with value and both clocks) and decided by an offline "
        "checker: (1) the flattened key bytes equal the stream bytes and the ungot bytes, each in "
        "order, exactly once after the final drain (disjoint byte alphabets identify the source); "
        "(2) every triggered event returned exactly once, per trigger in trigger order, SIGINT "
        "events counted; (3) scheduled events never before their time, in time order, equal "
        "times legal; (4) None never earlier than the timeout when nothing is scheduled; (5) a "
        "request made while something is deliverable returns non-None; (6) a burst larger than "
        "the paste threshold, fully arrived into an empty buffer, returns exactly one PasteEvent "
        "holding the incremental-decoder segmentation of the whole burst, smaller bursts single "
        "keys; (7) in the name modes the keys of a whole burst equal the segmentation of the "
        "whole burst (no sequence split at the 1024-byte read size); (8) the stream is never "
        "left non-blocking after a request. Sequential histories (30 actions) and concurrent "
        "ones (helper thread firing both kinds of trigger, writes and SIGINTs into blocked "
        "requests; thorough adds statement-level yield injection in input.py and counts distinct "
        "interleavings). Bursts of 1..4000 bytes built from whole keypresses, multi-byte units "
        "placed across offsets 1024/2048/3072; paste_threshold in {None, 1, 8, 1023, 5000}. "
        "Further scenario families: a burst arriving behind 1-6 buffered, already-read keypresses "
        "(unget / typed ahead) must still come back as one PasteEvent after them; a keypress whose "
        "bytes arrive in 2-3 separate writes, with requests in between or the later pieces arriving "
        "while a request is blocked (no exception, conservation); floods of 6-60 KB written by "
        "another thread in pieces of 3..65536 bytes while requests run, the kernel cutting "
        "characters where it likes (conservation); event objects that are falsy. "
        "distinct = distinct histories (by action script); non-trivial = at least one request "
        "returned something.")
FLOOR = 60
SHARDS = {"quick": 4, "thorough": 16}
TIMEOUT = {"quick": 600, "thorough": 3000}
ASSUMPTIONS = ["in the sequential/concurrent histories arrivals are whole keypresses and bursts <= 4000 bytes (pty line "
               "discipline buffers 4095) so that the paste/segmentation expectations are exact; cut keypresses and larger "
               "bursts are judged by conservation only (split and flood scenarios); a cut after the first byte of a "
               "multi-byte character is returned as two keys (8-bit meta key first) - bytes conserved, naming not judged",
               "where the decoder itself fails on a burst (a sequence prefix followed by a non-ASCII character, recorded under "
               "C03) the exact segmentation is not judged, only 'no exception', 'one paste event' and conservation",
               "unget_bytes is only called when no stream byte is outstanding (ungot bytes are appended to the buffer and "
               "could otherwise land inside a half-read keypress)",
               "scheduled triggers are called from the requesting thread",
               "encoding pinned to utf-8 by replacing curtsies.input.getpreferredencoding",
               "one SIGINT outstanding at a time (standard signals coalesce)",
               "wall clock is used only for one-sided bounds that load can only make easier"]

THRESHOLDS = [None, 1, 8, 1023, 5000]
_counter = [0]


def classes():
    from curtsies import events

    class Ev(events.Event):
        slow = 0.0        # set by the concurrent workloads: a user's event type may take time to build

        def __init__(self, src=None, i=None):
            if Ev.slow and (i or 0) % 3 == 0:
                time.sleep(Ev.slow)
            self.src, self.i = src, i

        def __repr__(self):
            return "Ev(%s,%s)" % (self.src, self.i)

        def __len__(self):
            # a user's event type may be a container that is empty (hence falsy); it is still
            # an event that was triggered and must be returned
            return 0 if (self.i or 0) % 4 == 0 else 1

    class Sch(events.ScheduledEvent):
        def __init__(self, when):
            super().__init__(when)
            _counter[0] += 1
            self.id = _counter[0]

        def __repr__(self):
            return "Sch(%d)" % self.id
    return Ev, Sch


_CLS = [None]


def describe(e):
    from curtsies import events
    Ev, Sch = _CLS[0]
    if e is None:
        return ("none",)
    if isinstance(e, bytes):
        return ("key", e)
    if isinstance(e, str):
        return ("keyname", e)
    if isinstance(e, events.PasteEvent):
        evs = list(e.events)
        if not all(isinstance(k, bytes) for k in evs) and any(isinstance(k, bytes) for k in evs):
            return ("other", "paste event mixing key types: %r" % (evs[:6],))
        return ("paste", evs)
    if isinstance(e, Ev):
        return ("ev", e.src, e.i)
    if isinstance(e, Sch):
        return ("sched", e.id)
    if isinstance(e, events.SigIntEvent):
        return ("sigint",)
    return ("other", repr(e))


class Rig:
    def __init__(self):
        import curtsies.input as ci
        self.ci = ci
        self._pin = plumbing.PinnedEncoding("utf-8")
        self.pty = plumbing.Pty(transparent=True)
        self.facts = Facts("utf-8")
        if _CLS[0] is None:
            _CLS[0] = classes()
        bad = set(UNGET_ALPHABET)
        # table sequences that are proper prefixes of longer ones (ESC, ESC [ ...) included: they merge
        # with what follows as the decoder's segmentation says, and followed by a non-ASCII character
        # Input recovers from the decoder's failure (conservation is still judged)
        self.tabs = sorted(t for t in self.facts.table if t not in self.facts.meta and not (set(t) & bad))

    def close(self):
        self._pin.restore()
        self.pty.close()


_RIG = [None]


def rig():
    if _RIG[0] is None:
        _RIG[0] = Rig()
    return _RIG[0]


def release_trigger_fds(inp, callbacks):
    """threadsafe_event_trigger pipes are never closed by curtsies; thousands of histories in
    one process would run select() out of descriptors (harness housekeeping, not a verdict)"""
    fds = set(getattr(inp, "readers", []))
    for cb in callbacks:
        for cell in (cb.__closure__ or ()):
            try:
                v = cell.cell_contents
            except ValueError:
                continue
            if isinstance(v, int) and not isinstance(v, bool) and v > 2:
                fds.add(v)
    for fd in fds:
        try:
            os.close(fd)
        except OSError:
            pass


# ---------------------------------------------------------------- burst generation

def unit(rng, R):
    r = rng.random()
    if r < .35:
        return bytes([rng.randrange(ord("a"), ord("z") + 1)])
    if r < .65:
        return chr(rng.choice([0xE9, 0x416, 0x4E00, 0x20AC, 0x1F600, 0x10348, 0xFF25])).encode("utf-8")
    return rng.choice(R.tabs)


def burst(rng, R, size):
    """whole keypresses, about `size` bytes; when size crosses a multiple of 1024 a multi-byte
    unit is placed across the boundary"""
    out = b""
    size = min(size, 3980)
    while len(out) < size:
        nxt = (len(out) // 1024 + 1) * 1024
        if nxt - len(out) <= 6 and nxt < size:
            # land a multi-byte unit across the read boundary
            k = rng.randint(0, max(0, nxt - len(out) - 1))
            out += b"a" * k
            u = rng.choice([chr(0x4E00).encode(), chr(0x1F600).encode(), b"\x1b[4h", b"\x1b[1;5C", b"\x1b[23~"])
            out += u
            continue
        out += unit(rng, R)
    return out


# ---------------------------------------------------------------- sequential histories

def gen_script(rng, R):
    pt = rng.choice(THRESHOLDS)
    script = []
    sizes = [1, 1, 2, 3, 5, 9, 12, 40, 200, 1000, 1023, 1024, 1025, 1030, 2047, 2050, 3000, 3075, 4000]
    for _ in range(rng.randint(8, 30)):
        r = rng.random()
        if r < .22:
            script.append(["write", burst(rng, R, rng.choice(sizes) if rng.random() < .5 else rng.randint(1, 30))])
        elif r < .28:
            script.append(["unget", bytes(rng.choice(UNGET_ALPHABET) for _ in range(rng.randint(1, 4)))])
        elif r < .36:
            script.append(["ev"])
        elif r < .44:
            script.append(["ts", rng.randint(0, 1)])
        elif r < .52:
            script.append(["sched", rng.choice([-1.0, -0.5, -0.001, 0.002, 0.01, 0.03])])
        elif r < .56:
            script.append(["sched_equal"])
        elif r < .62:
            script.append(["sigint"])
        else:
            script.append(["req", rng.choice([0, 0, 0.001, 0.004, 0.02, "block"])])
    return {"kind": "seq", "paste_threshold": pt, "sigint_event": rng.random() < .4, "script": script}


def run_seq(ctx, case):
    from curtsies import events
    R = rig()
    Ev, Sch = _CLS[0]
    pt = case["paste_threshold"]
    R.pty.drain_slave()
    hist = []
    problems = []
    D = inputq.Deliverable()
    ids = {"ev": 0, "ts0": 0, "ts1": 0}
    inp = R.ci.Input(R.pty.stream, keynames="bytes", paste_threshold=pt, sigint_event=case["sigint_event"])
    ev = inp.event_trigger(Ev)
    ts = [inp.threadsafe_event_trigger(Ev) for _ in range(2)]
    sch = inp.scheduled_event_trigger(Sch)
    base_flags = fcntl.fcntl(R.pty.slave, fcntl.F_GETFL)
    last_when = [None]
    fresh_burst = [None]      # a burst that arrived into a provably empty Input

    def request(timeout):
        w0, t0 = time.time(), time.monotonic()
        deliverable = D.anything(w0)
        expect_burst = fresh_burst[0] if (fresh_burst[0] is not None and D.events == 0 and D.unget == 0
                                          and D.sigints == 0 and not any(w < w0 + 1.0 for w in D.sched.values())) else None
        try:
            e = inp.send(timeout)
            ret = describe(e)
        except Exception as ex:  # noqa
            ret = ("raise", type(ex).__name__, str(ex)[:120])
        t1, w1 = time.monotonic(), time.time()
        fl = fcntl.fcntl(R.pty.slave, fcntl.F_GETFL)
        rec = {"k": "req", "timeout": timeout, "t0": t0, "t1": t1, "w0": w0, "w1": w1, "ret": ret,
               "flags_nonblock": bool(fl & os.O_NONBLOCK and not base_flags & os.O_NONBLOCK)}
        hist.append(rec)
        if ret[0] != "raise":
            if deliverable and ret[0] == "none":
                problems.append(("blocked-while-deliverable", {"timeout": timeout, "stream": D.stream,
                                                               "unget": D.unget, "events": D.events}))
            if expect_burst is not None:
                data = expect_burst
                want_paste = pt is not None and min(len(data), 1024) > pt
                try:
                    seg = drive(events.get_key, [data], "utf-8", events.Keynames.BYTES)
                except Exception:
                    seg = None
                if seg is not None:
                    if want_paste:
                        if ret != ("paste", seg):
                            problems.append(("paste", {"burst_len": len(data), "threshold": pt,
                                                       "expected_keys": len(seg), "got": summarize(ret)}))
                    elif ret != ("key", seg[0]):
                        problems.append(("single-key", {"burst_len": len(data), "threshold": pt,
                                                        "expected": seg[0], "got": summarize(ret)}))
            D.account(ret)
        fresh_burst[0] = None
        return ret

    try:
        with inp:
            for act in case["script"]:
                k = act[0]
                if k == "write":
                    if D.stream + len(act[1]) > 4000:
                        continue            # would overflow the pty's 4095-byte buffer
                    empty = D.stream == 0 and D.unget == 0
                    if not R.pty.feed(act[1]):
                        ctx.inconclusive_because("pty did not deliver a burst within 5 s")
                        return
                    hist.append({"k": "write", "data": act[1], "t": time.monotonic()})
                    D.stream += len(act[1])
                    fresh_burst[0] = act[1] if empty else None
                elif k == "unget":
                    if D.stream:
                        # ungot bytes are appended to Input's buffer; with stream bytes still on
                        # their way through 1024-byte reads they could land inside a keypress
                        # that is only half read - the same as an arrival that splits a
                        # keypress, which is outside the property's domain
                        continue
                    inp.unget_bytes(act[1])
                    hist.append({"k": "unget", "data": act[1], "t": time.monotonic()})
                    D.unget += len(act[1])
                    fresh_burst[0] = None
                elif k == "ev":
                    ids["ev"] += 1
                    t0 = time.monotonic()
                    ev(src="ev", i=ids["ev"])
                    hist.append({"k": "trig", "src": "ev", "id": ids["ev"], "t0": t0, "t1": time.monotonic()})
                    D.events += 1
                elif k == "ts":
                    s = "ts%d" % act[1]
                    ids[s] += 1
                    t0 = time.monotonic()
                    ts[act[1]](src=s, i=ids[s])
                    hist.append({"k": "trig", "src": s, "id": ids[s], "t0": t0, "t1": time.monotonic()})
                    D.events += 1
                elif k in ("sched", "sched_equal"):
                    now = time.time()
                    when = now + act[1] if k == "sched" else (last_when[0] if last_when[0] is not None else now - 1)
                    last_when[0] = when
                    before = _counter[0]
                    sch(when)
                    sid = _counter[0]
                    if sid != before + 1:
                        raise RuntimeError("scheduled event id bookkeeping")
                    hist.append({"k": "sched", "id": sid, "when": when, "t": now})
                    D.sched[sid] = when
                elif k == "sigint":
                    if case["sigint_event"]:
                        # a SIGINT between two requests (the handler runs before the next statement)
                        os.kill(os.getpid(), signal.SIGINT)      # the handler runs before the next statement
                        time.sleep(0.001)
                        hist.append({"k": "sigint", "t": time.monotonic()})
                        D.sigints += 1
                elif k == "req":
                    to = act[1]
                    if to == "block":
                        # a long timeout is only used when something is already deliverable
                        to = 5.0 if D.anything(time.time()) else 0.003
                    request(to)
            # final drain: until nothing is returned twice in a row and nothing scheduled is due
            idle = 0
            deadline = time.monotonic() + 20
            budget = D.stream + D.unget + D.events + D.sigints + len(D.sched) + 8
            while idle < 2:
                if time.monotonic() > deadline:
                    ctx.inconclusive_because("drain did not finish within 20 s")
                    return
                ret = request(0.002 if D.sched else 0)
                if ret[0] == "raise":
                    break
                if ret[0] != "none":
                    budget -= 1
                    if budget < 0:
                        break       # more returned than was ever put in: the history checker reports what was duplicated
                idle = idle + 1 if ret[0] == "none" and not any(w < time.time() for w in D.sched.values()) else 0
                if ret[0] == "none" and D.sched and min(D.sched.values()) > time.time():
                    time.sleep(max(0, min(D.sched.values()) - time.time()))
    except Exception as ex:  # noqa
        problems.append(("raise", {"outside request": repr(ex)}))
    release_trigger_fds(inp, ts)
    problems += inputq.check(hist, drained=True)
    finish_history(ctx, case, hist, problems)


def summarize(ret):
    if ret[0] == "paste":
        return ["paste", len(ret[1]), ret[1][:3]]
    return list(ret)


def classify(case, mech, detail, hist):
    if mech == "raise":
        exc = detail.get("exception") or [""]
        if exc[0] == "TypeError" and sum(1 for r in hist if r["k"] == "sched") >= 2:
            whens = [r["when"] for r in hist if r["k"] == "sched"]
            if len(set(whens)) < len(whens):
                return "C08:equal-scheduled-times"
        if exc[0] == "UnicodeDecodeError" and case.get("kind") == "prefixchar":
            return "C08:prefix-then-non-ascii-character"
        if exc[0] == "ValueError" and "identify key" in (exc[1] if len(exc) > 1 else "") and case.get("kind") in ("split", "flood"):
            return "C08:keypress-split-across-arrivals"
        if exc[0] == "ValueError" and "identify key" in (exc[1] if len(exc) > 1 else "") and nonpaste_big(case, hist):
            return "C08:non-paste-path-does-not-refill"
    if mech == "events":
        missing = set(detail.get("triggered", ())) - set(detail.get("returned", ()))
        if missing and all(i % 4 == 0 for i in missing):
            return "C08:falsy-event-dropped"
    if mech in ("bytes", "single-key", "names") and nonpaste_big(case, hist):
        return "C08:non-paste-path-does-not-refill"
    return "C08:" + mech


def nonpaste_big(case, hist):
    pt = case.get("paste_threshold")
    big = any(r["k"] == "write" and len(r["data"]) > 1024 for r in hist)
    return big and (pt is None or pt >= 1024)


def finish_history(ctx, case, hist, problems):
    sig = ("C08", repr(case))
    nontrivial = any(r["k"] == "req" and r["ret"][0] not in ("none", "raise") for r in hist)
    ctx.count("requests", sum(1 for r in hist if r["k"] == "req"))
    ctx.count("bytes_written", sum(len(r["data"]) for r in hist if r["k"] == "write"))
    ctx.count("events_triggered", sum(1 for r in hist if r["k"] in ("trig", "sched", "sigint")))
    ctx.count("paste_events", sum(1 for r in hist if r["k"] == "req" and r["ret"][0] == "paste"))
    if not problems:
        ctx.judge(True, case, sig, nontrivial=nontrivial)
        return
    seen = set()
    first = True
    for mech, detail in problems:
        m = classify(case, mech, detail, hist)
        if m in seen:
            continue
        seen.add(m)
        tail = [[r["k"], summarize(r["ret"]) if r["k"] == "req" else (len(r["data"]) if "data" in r else r.get("id"))]
                for r in hist[-12:]]
        if first:
            ctx.judge(False, case, sig, m, None, detail, {"history_tail": tail}, nontrivial)
            first = False
        else:
            ctx.violation(m, case, None, detail, {"history_tail": tail})


# ---------------------------------------------------------------- bursts behind buffered keys, split keypresses

def gen_buffered(rng, R):
    pt = rng.choice([1, 8, 8, 50])
    how = rng.choice(["unget", "typed"])
    if how == "unget":
        pre = bytes(rng.choice(UNGET_ALPHABET) for _ in range(rng.randint(1, 6)))
    else:
        pre = bytes(rng.randrange(ord("a"), ord("z") + 1) for _ in range(rng.randint(2, min(6, max(2, pt)))))
        if len(pre) > pt:
            how, pre = "unget", bytes(rng.choice(UNGET_ALPHABET) for _ in range(len(pre)))
    return {"kind": "buffered", "paste_threshold": pt, "how": how, "pre": pre,
            "burst": burst(rng, R, rng.choice([pt + 1, pt + 5, 100, 400, 1000]))}


def run_buffered(ctx, case):
    """a burst that arrives while a few already-read, unambiguous keypresses are still buffered:
    those come out singly, then the burst - read in one go - as one paste event"""
    from curtsies import events
    R = rig()
    pt, pre, data = case["paste_threshold"], case["pre"], case["burst"]
    R.pty.drain_slave()
    inp = R.ci.Input(R.pty.stream, keynames="bytes", paste_threshold=pt)
    hist, problems = [], []

    def req():
        t0 = time.monotonic()
        try:
            ret = describe(inp.send(0))
        except Exception as ex:  # noqa
            ret = ("raise", type(ex).__name__, str(ex)[:120])
        hist.append({"k": "req", "timeout": 0, "t0": t0, "t1": time.monotonic(), "w0": 0, "w1": 0, "ret": ret})
        return ret
    try:
        with inp:
            rest = pre
            if case["how"] == "unget":
                inp.unget_bytes(pre)
                hist.append({"k": "unget", "data": pre, "t": time.monotonic()})
            else:
                if not R.pty.feed(pre):
                    ctx.inconclusive_because("pty did not deliver within 5 s")
                    return
                hist.append({"k": "write", "data": pre, "t": time.monotonic()})
                ret = req()
                if ret != ("key", pre[:1]):
                    problems.append(("single-key", {"expected": pre[:1], "got": summarize(ret)}))
                rest = pre[1:]
            if not problems:
                if not R.pty.feed(data):
                    ctx.inconclusive_because("pty did not deliver within 5 s")
                    return
                hist.append({"k": "write", "data": data, "t": time.monotonic()})
                for i in range(len(rest)):
                    ret = req()
                    if ret != ("key", rest[i:i + 1]):
                        problems.append(("single-key", {"expected": rest[i:i + 1], "got": summarize(ret), "buffered_key": i}))
                        break
            if not problems:
                try:
                    seg = drive(events.get_key, [data], "utf-8", events.Keynames.BYTES)
                except Exception:
                    seg = None      # the decoder itself fails on this burst: only "one paste event" and conservation
                ret = req()
                if seg is None:
                    if ret[0] != "paste":
                        problems.append(("paste-behind-buffered-keys", {"burst_len": len(data), "threshold": pt,
                                                                        "buffered": len(rest), "how": case["how"],
                                                                        "got": summarize(ret)}))
                elif ret != ("paste", seg):
                    problems.append(("paste-behind-buffered-keys", {"burst_len": len(data), "threshold": pt,
                                                                    "buffered": len(rest), "how": case["how"],
                                                                    "expected_keys": len(seg), "got": summarize(ret)}))
            for _ in range(len(data) + 3):
                if req()[0] in ("none", "raise"):
                    break
    except Exception as ex:  # noqa
        problems.append(("raise", {"outside request": repr(ex)}))
    problems += inputq.check(hist, drained=True)
    finish_history(ctx, case, hist, problems)


SPLIT_UNITS = [chr(c).encode("utf-8") for c in (0xE9, 0x416, 0x4E00, 0x20AC, 0x1F600, 0x10348, 0xFF25)] + \
              [b"\x1b[1;5C", b"\x1b[23~", b"\x1b[3~", b"\x1b[15;2~", b"\x1bOP", b"\x1b[A", b"\x1b[1;3D"]


def gen_split(rng, R):
    u = rng.choice(SPLIT_UNITS)
    ncuts = 1 if len(u) < 3 or rng.random() < .6 else 2
    cuts = sorted(rng.sample(range(1, len(u)), min(ncuts, len(u) - 1)))
    return {"kind": "split", "paste_threshold": rng.choice([None, 1, 8]),
            "pre": burst(rng, R, rng.choice([0, 0, 1, 3, 20, 300])) if rng.random() < .6 else b"",
            "unit": u, "cuts": cuts, "post": burst(rng, R, rng.choice([0, 0, 1, 5, 40])) if rng.random() < .6 else b"",
            "between": [rng.choice([0, 0, 0.002, 0.01]) for _ in range(rng.randint(1, 4))],
            "during_blocked": rng.random() < .5}


def run_split(ctx, case):
    """a keypress (multi-byte character / escape sequence) whose bytes arrive in two or three
    separate writes with requests in between (sequentially, or the later pieces arriving while a
    request is blocked): no request raises and every byte is returned exactly once, in order"""
    R = rig()
    u, cuts = case["unit"], case["cuts"]
    pieces = [u[a:b] for a, b in zip([0] + cuts, cuts + [len(u)])]
    pieces[0] = case["pre"] + pieces[0]
    pieces[-1] = pieces[-1] + case["post"]
    R.pty.drain_slave()
    inp = R.ci.Input(R.pty.stream, keynames="bytes", paste_threshold=case["paste_threshold"])
    hist, problems = [], []
    lock = threading.Lock()

    def req(to):
        t0 = time.monotonic()
        try:
            ret = describe(inp.send(to))
        except Exception as ex:  # noqa
            ret = ("raise", type(ex).__name__, str(ex)[:120])
        with lock:
            hist.append({"k": "req", "timeout": to, "t0": t0, "t1": time.monotonic(), "w0": 0, "w1": 0, "ret": ret})
        return ret

    def later():
        for p in pieces[1:]:
            time.sleep(0.02)
            with lock:
                hist.append({"k": "write", "data": p, "t": time.monotonic()})
            os.set_blocking(R.pty.master, True)
            os.write(R.pty.master, p)
    th = None
    try:
        with inp:
            if not R.pty.feed(pieces[0]):
                ctx.inconclusive_because("pty did not deliver within 5 s")
                return
            hist.append({"k": "write", "data": pieces[0], "t": time.monotonic()})
            stop = False
            if case["during_blocked"]:
                # take what is whole first, then let the rest arrive while a request is blocked
                for _ in range(len(pieces[0]) + 2):
                    ret = req(0)
                    if ret[0] in ("none", "raise"):
                        stop = ret[0] == "raise"
                        break
                if not stop:
                    th = threading.Thread(target=later)
                    th.start()
                    t_give_up = time.monotonic() + 1.0
                    ret = req(1.0)
                    th.join(5)
                    last_write = max(r["t"] for r in hist if r["k"] == "write")
                    if ret[0] == "none" and last_write < t_give_up - 0.3:
                        problems.append(("blocked-while-deliverable", {"whole keypress arrived s before give-up":
                                                                       round(t_give_up - last_write, 3)}))
                    stop = ret[0] == "raise"
            else:
                for k, p in enumerate(pieces[1:]):
                    for to in case["between"]:
                        if req(to)[0] == "raise":
                            stop = True
                            break
                    if stop:
                        break
                    if not R.pty.feed(p):
                        ctx.inconclusive_because("pty did not deliver within 5 s")
                        return
                    hist.append({"k": "write", "data": p, "t": time.monotonic()})
            idle = 0
            for _ in range(len(b"".join(pieces)) + 6):
                if stop:
                    break
                ret = req(0.002)
                if ret[0] == "raise":
                    break
                idle = idle + 1 if ret[0] == "none" else 0
                if idle >= 2:
                    break
    except Exception as ex:  # noqa
        problems.append(("raise", {"outside request": repr(ex)}))
    finally:
        if th is not None:
            th.join(5)
    problems += inputq.check(hist, drained=True, concurrent=True)
    finish_history(ctx, case, hist, problems)


PREFIX_KEYS = [b"\x1b", b"\x1b[", b"\x1bO", b"\x1b\x1b", b"\x1b[1", b"\x1b[1;5"]


def gen_prefixchar(rng, R):
    ch = chr(rng.choice([0xE9, 0x416, 0x4E00, 0x20AC, 0x1F600])).encode("utf-8")
    return {"kind": "prefixchar", "paste_threshold": rng.choice([None, 1, 8]),
            "pre": burst(rng, R, rng.choice([0, 0, 2, 30])) if rng.random() < .5 else b"",
            "prefix": rng.choice(PREFIX_KEYS), "char": ch,
            "post": burst(rng, R, rng.choice([0, 3, 30])) if rng.random() < .6 else b""}


def run_prefixchar(ctx, case):
    """an Escape key / the start of an escape sequence directly followed by a non-ASCII character
    in the same arrival (Alt+e-acute on a terminal whose Meta sends ESC): valid input; no request
    raises and every byte comes back once, in order"""
    R = rig()
    data = case["pre"] + case["prefix"] + case["char"] + case["post"]
    R.pty.drain_slave()
    inp = R.ci.Input(R.pty.stream, keynames="bytes", paste_threshold=case["paste_threshold"])
    hist, problems = [], []
    try:
        with inp:
            if not R.pty.feed(data):
                ctx.inconclusive_because("pty did not deliver within 5 s")
                return
            hist.append({"k": "write", "data": data, "t": time.monotonic()})
            idle = 0
            for _ in range(len(data) + 6):
                t0 = time.monotonic()
                try:
                    ret = describe(inp.send(0.002))
                except Exception as ex:  # noqa
                    ret = ("raise", type(ex).__name__, str(ex)[:120])
                hist.append({"k": "req", "timeout": 0.002, "t0": t0, "t1": time.monotonic(), "w0": 0, "w1": 0, "ret": ret})
                if ret[0] == "raise":
                    break
                idle = idle + 1 if ret[0] == "none" else 0
                if idle >= 2:
                    break
    except Exception as ex:  # noqa
        problems.append(("raise", {"outside request": repr(ex)}))
    problems += inputq.check(hist, drained=True)
    finish_history(ctx, case, hist, problems)


def gen_lateunit(rng, R):
    u = rng.choice(SPLIT_UNITS)
    return {"kind": "lateunit", "pre": bytes(rng.randrange(ord("a"), ord("z") + 1) for _ in range(rng.randint(2, 6))),
            "unit": u, "cut": rng.randint(1, len(u) - 1),
            "post": burst(rng, R, rng.choice([0, 0, 1, 5, 40])) if rng.random() < .6 else b"",
            "mode": rng.choice(["bytes", "curtsies", "curses"])}


def run_lateunit(ctx, case):
    """the first bytes of a keypress sit in Input's buffer behind other keys; its remaining bytes
    have arrived by the time decoding gets to it: it is reported as the one keypress it is"""
    from curtsies import events
    R = rig()
    km = keysengine.modes()[case["mode"]]
    first = case["pre"] + case["unit"][:case["cut"]]
    rest = case["unit"][case["cut"]:] + case["post"]
    R.pty.drain_slave()
    inp = R.ci.Input(R.pty.stream, keynames=km, paste_threshold=None)
    problems, got = [], []
    try:
        with inp:
            if not R.pty.feed(first):
                ctx.inconclusive_because("pty did not deliver within 5 s")
                return
            got.append(inp.send(0))          # reads `first` into the buffer, returns its first key
            if not R.pty.feed(rest):
                ctx.inconclusive_because("pty did not deliver within 5 s")
                return
            for _ in range(len(first) + len(rest) + 3):
                e = inp.send(0)
                if e is None:
                    break
                got.append(e)
    except Exception as ex:  # noqa
        problems.append(("raise", {"exception": [type(ex).__name__, str(ex)[:100]]}))
    if not problems:
        try:
            want = drive(events.get_key, [first + rest], "utf-8", km)
        except Exception:
            want = None
        if want is not None and got != want:
            i = next((j for j, (a, b) in enumerate(zip(got, want)) if a != b), min(len(got), len(want)))
            problems.append(("keypress-arrived-meanwhile-broken-up", {"first_difference_at_key": i, "expected": want[i:i + 3],
                                                                      "got": got[i:i + 4]}))
    sig = ("C08", "lateunit", repr(case))
    ctx.count("late_unit_histories")
    if not problems:
        ctx.judge(True, case, sig)
    else:
        mech, detail = problems[0]
        ctx.judge(False, case, sig, "C08:" + mech, None, detail)


def gen_behind_incomplete(rng, R):
    ch = chr(rng.choice([0x416, 0x4E00, 0x20AC, 0x1F600])).encode("utf-8")
    pt = rng.choice([1, 8, 50])
    return {"kind": "behind-incomplete", "paste_threshold": pt, "pre": bytes(rng.randrange(ord("a"), ord("w") + 1)
                                                                          for _ in range(rng.randint(0, 3))),
            "char": ch, "cut": rng.randint(1, len(ch) - 1), "burst": b"x" * rng.choice([pt + 40, 200, 500, 1000])}


def run_behind_incomplete(ctx, case):
    """the start of a multi-byte character is buffered, the rest of it arrives together with a burst
    far larger than the paste threshold: the character is completed, and the burst is still
    recognisable as a paste - all of it but the few keypresses a completing read may take along
    (fewer than the maximum keypress length) comes back in one PasteEvent"""
    from curtsies import events
    R = rig()
    pt, ch, k, data = case["paste_threshold"], case["char"], case["cut"], case["burst"]
    first = case["pre"] + ch[:k]
    R.pty.drain_slave()
    inp = R.ci.Input(R.pty.stream, keynames="bytes", paste_threshold=None if False else pt)
    hist, problems = [], []

    def req(to=0):
        t0 = time.monotonic()
        try:
            ret = describe(inp.send(to))
        except Exception as ex:  # noqa
            ret = ("raise", type(ex).__name__, str(ex)[:120])
        hist.append({"k": "req", "timeout": to, "t0": t0, "t1": time.monotonic(), "w0": 0, "w1": 0, "ret": ret})
        return ret
    try:
        with inp:
            if not R.pty.feed(first):
                ctx.inconclusive_because("pty did not deliver within 5 s")
                return
            hist.append({"k": "write", "data": first, "t": time.monotonic()})
            for _ in range(len(first) + 2):
                if req()[0] in ("none", "raise"):
                    break
            if not R.pty.feed(ch[k:] + data):
                ctx.inconclusive_because("pty did not deliver within 5 s")
                return
            hist.append({"k": "write", "data": ch[k:] + data, "t": time.monotonic()})
            for _ in range(len(data) + 6):
                if req()[0] in ("none", "raise"):
                    break
    except Exception as ex:  # noqa
        problems.append(("raise", {"outside request": repr(ex)}))
    problems += inputq.check(hist, drained=True)
    if not problems:
        pastes = [r["ret"][1] for r in hist if r["k"] == "req" and r["ret"][0] == "paste"]
        in_paste = sum(len(b"".join(p)) for p in pastes)
        burst_pastes = [p for p in pastes if b"x" in b"".join(p)]
        if len(burst_pastes) != 1 or len(data) - sum(b"".join(p).count(b"x") for p in burst_pastes) >= events.MAX_KEYPRESS_SIZE:
            problems.append(("burst-behind-incomplete-keypress-not-a-paste",
                             {"burst_len": len(data), "threshold": pt, "paste_events_holding_burst_keys": len(burst_pastes),
                              "burst_bytes_inside_paste_events": in_paste}))
    finish_history(ctx, case, hist, problems)


def run_trickle(ctx, case):
    """a 4-byte character that trickles in while a request is blocked: two bytes, then a third -
    still no keypress - and the last byte only after the request has given up. The request
    returns None, not before its timeout, and nothing is lost."""
    R = rig()
    u = case["unit"]
    pieces = [u[:2], u[2:3], u[3:]]
    to = case["timeout"]
    R.pty.drain_slave()
    inp = R.ci.Input(R.pty.stream, keynames="bytes", paste_threshold=case["paste_threshold"])
    hist, problems = [], []
    lock = threading.Lock()

    def req(timeout):
        t0 = time.monotonic()
        try:
            ret = describe(inp.send(timeout))
        except Exception as ex:  # noqa
            ret = ("raise", type(ex).__name__, str(ex)[:120])
        with lock:
            hist.append({"k": "req", "timeout": timeout, "t0": t0, "t1": time.monotonic(), "w0": 0, "w1": 0, "ret": ret})
        return ret

    def later():
        for p_ in pieces[:2]:
            time.sleep(to * case["gap"])
            with lock:
                hist.append({"k": "write", "data": p_, "t": time.monotonic()})
            os.set_blocking(R.pty.master, True)
            os.write(R.pty.master, p_)
    th = threading.Thread(target=later)
    try:
        with inp:
            th.start()
            ret = req(to)
            th.join(5)
            if ret[0] not in ("none", "raise"):
                problems.append(("bytes", {"what": "a request returned %r before the character was complete" % (summarize(ret),)}))
            if R.pty.feed(pieces[2]):
                hist.append({"k": "write", "data": pieces[2], "t": time.monotonic()})
            for _ in range(6):
                if req(0.002)[0] in ("none", "raise"):
                    break
    except Exception as ex:  # noqa
        problems.append(("raise", {"outside request": repr(ex)}))
    finally:
        if th.is_alive():
            th.join(5)
    problems += inputq.check(hist, drained=True, concurrent=False)
    ctx.count("trickled_keypresses")
    finish_history(ctx, case, hist, problems)


def run_flood(ctx, case):
    """tens of kilobytes written by another thread while the requesting thread keeps asking:
    the kernel hands the burst out in pieces of its own choosing (4095 bytes at most), so
    characters and sequences are cut at arbitrary places; every byte comes back once, in order"""
    R = rig()
    rng = __import__("random").Random(case["seed"])
    data = b""
    while len(data) < case["size"]:
        data += unit(rng, R) if case["mix"] else "€".encode("utf-8")
    R.pty.drain_slave()
    inp = R.ci.Input(R.pty.stream, keynames="bytes", paste_threshold=case["paste_threshold"])
    hist, problems = [{"k": "write", "data": data, "t": time.monotonic()}], []

    def writer():
        os.set_blocking(R.pty.master, True)
        view = memoryview(data)
        wr = __import__("random").Random(case["seed"] + 1)
        while view:
            n = os.write(R.pty.master, view[:wr.choice(case.get("chunks") or [65536])])
            view = view[n:]
    th = threading.Thread(target=writer)
    got = 0
    try:
        with inp:
            th.start()
            deadline = time.monotonic() + 60
            idle = 0
            while got < len(data) and idle < 3:
                t0 = time.monotonic()
                try:
                    ret = describe(inp.send(0.3))
                except Exception as ex:  # noqa
                    ret = ("raise", type(ex).__name__, str(ex)[:120])
                hist.append({"k": "req", "timeout": 0.3, "t0": t0, "t1": time.monotonic(), "w0": 0, "w1": 0, "ret": ret})
                if ret[0] == "raise":
                    break
                got += sum(map(len, inputq.flatten_keys(ret)))
                idle = idle + 1 if ret[0] == "none" else 0
                if time.monotonic() > deadline:
                    ctx.inconclusive_because("flood did not finish within 60 s")
                    break
    except Exception as ex:  # noqa
        problems.append(("raise", {"outside request": repr(ex)}))
    finally:
        R.pty.drain_slave()
        th.join(10)
        os.set_blocking(R.pty.master, False)
    problems += inputq.check(hist, drained=True, concurrent=True)
    ctx.count("flood_bytes", len(data))
    case = dict(case, kind="flood")
    hist[0] = {"k": "write", "data": data[:16] + b"...", "t": hist[0]["t"]}
    finish_history(ctx, case, hist, [(m, d) for m, d in problems])


# ---------------------------------------------------------------- name modes (condition 7)

def run_names(ctx, case):
    from curtsies import events
    R = rig()
    mode, pt = case["mode"], case["paste_threshold"]
    km = keysengine.modes()[mode]
    R.pty.drain_slave()
    inp = R.ci.Input(R.pty.stream, keynames=km, paste_threshold=pt)
    hist, problems = [], []
    try:
        with inp:
            for data in case["bursts"]:
                if not R.pty.feed(data):
                    ctx.inconclusive_because("pty did not deliver a burst within 5 s")
                    return
                hist.append({"k": "write", "data": data})
                try:
                    want = drive(events.get_key, [data], "utf-8", km)
                except Exception:
                    want = None     # the decoder itself fails on this burst (recorded under C03): no exception expected, names not judged
                got = []
                exc = None
                while len(got) <= len(data) + 8:        # no more keypresses than bytes: a key handed out again and again ends here
                    try:
                        e = inp.send(0)
                    except Exception as ex:  # noqa
                        exc = ex
                        break
                    if e is None:
                        break
                    got.extend(e.events if isinstance(e, events.PasteEvent) else [e])
                hist.append({"k": "req", "ret": ("names", len(got))})
                if exc is not None:
                    problems.append(("raise", {"exception": [type(exc).__name__, str(exc)[:100]], "burst_len": len(data)}))
                    break
                if want is not None and got != want:
                    i = next((j for j, (a, b) in enumerate(zip(got, want)) if a != b), min(len(got), len(want)))
                    problems.append(("names", {"burst_len": len(data), "first_difference_at_key": i,
                                               "expected": want[i:i + 3], "got": got[i:i + 3]}))
                    break
    except Exception as ex:  # noqa
        problems.append(("raise", {"outside request": repr(ex)}))
    sig = ("C08", "names", repr(case))
    ctx.count("name_mode_bursts", len(case["bursts"]))
    if not problems:
        ctx.judge(True, case, sig)
    else:
        mech, detail = problems[0]
        ctx.judge(False, case, sig, classify(case, mech, detail, hist), None, detail)


# ---------------------------------------------------------------- concurrent histories

def gen_concurrent(rng, R):
    script = []
    for _ in range(rng.randint(2, 8)):
        r = rng.random()
        if r < .35:
            act = ["ts", rng.randint(0, 1)]
        elif r < .5:
            act = ["ev"]
        elif r < .85:
            act = ["write", burst(rng, R, rng.choice([1, 2, 3, 6, 20, 300]))]
        else:
            act = ["sigint"]
        script.append([rng.choice([0, 0, 0.001, 0.004, 0.015]), act])
    return {"kind": "conc", "paste_threshold": rng.choice([None, 8]), "script": script,
            "timeouts": [rng.choice([0, 0.002, 0.01, 0.05, 0.3]) for _ in range(12)],
            "slow_ctor": rng.choice([0.0, 0.0, 0.0005, 0.002]),
            "yield_seed": rng.randrange(1 << 30)}


def run_conc(ctx, case, yields=None):
    R = rig()
    Ev, Sch = _CLS[0]
    R.pty.drain_slave()
    hist = []
    lock = threading.Lock()
    ids = {"ev": 0, "ts0": 0, "ts1": 0}
    inp = R.ci.Input(R.pty.stream, keynames="bytes", paste_threshold=case["paste_threshold"], sigint_event=True)
    ev = inp.event_trigger(Ev)
    ts = [inp.threadsafe_event_trigger(Ev) for _ in range(2)]
    base_flags = fcntl.fcntl(R.pty.slave, fcntl.F_GETFL)
    main_pid = os.getpid()
    ts_times = []
    delivered = [0]
    library_handler = inp.sigint_handler

    def counted_handler(signum, frame):
        # a SIGINT as Input receives it (run by the interpreter in the requesting thread)
        delivered[0] += 1
        hist.append({"k": "sigint", "t": time.monotonic()})
        return library_handler(signum, frame)
    inp.sigint_handler = counted_handler

    def helper():
        for delay, act in case["script"]:
            time.sleep(delay)
            k = act[0]
            if k == "ts":
                s = "ts%d" % act[1]
                ids[s] += 1
                rec = {"k": "trig", "src": s, "id": ids[s], "t0": time.monotonic()}
                with lock:
                    hist.append(rec)
                ts[act[1]](src=s, i=ids[s])
                rec["t1"] = time.monotonic()
                # the CALL time: an event whose trigger call started after a request started
                # cannot have been handed out by an earlier request
                ts_times.append((rec["t0"], rec["t1"]))
            elif k == "ev":
                ids["ev"] += 1
                rec = {"k": "trig", "src": "ev", "id": ids["ev"], "t0": time.monotonic()}
                with lock:
                    hist.append(rec)
                ev(src="ev", i=ids["ev"])
                rec["t1"] = time.monotonic()
            elif k == "write":
                with lock:
                    hist.append({"k": "write", "data": act[1], "t": time.monotonic()})
                os.set_blocking(R.pty.master, True)
                os.write(R.pty.master, act[1])
            elif k == "sigint":
                # standard signals coalesce: two SIGINTs that reach the process before the
                # interpreter has run the handler once are ONE delivery. What has to come back
                # exactly once is every delivery, so deliveries are what the history records
                # (the handler is counted where Input receives it), and the next signal is only
                # sent once this one has been delivered
                before = delivered[0]
                os.kill(main_pid, signal.SIGINT)
                t_end = time.monotonic() + 1.0
                while delivered[0] == before and time.monotonic() < t_end:
                    time.sleep(0.001)
                time.sleep(0.002)

    problems = []
    th = threading.Thread(target=helper, name="helper")
    trace = ()
    late = []
    body_end = [None]
    Ev.slow = case.get("slow_ctor", 0.0)
    old_handler = signal.signal(signal.SIGINT, lambda s, f: late.append(time.monotonic()))
    try:
        with inp:
            if yields:
                yields.start(case["yield_seed"])
            th.start()
            deadline = time.monotonic() + 25
            idle = 0
            ti = 0
            while True:
                to = case["timeouts"][ti % len(case["timeouts"])]
                ti += 1
                w0, t0 = time.time(), time.monotonic()
                try:
                    ret = describe(inp.send(to))
                except Exception as ex:  # noqa
                    ret = ("raise", type(ex).__name__, str(ex)[:120])
                t1, w1 = time.monotonic(), time.time()
                fl = fcntl.fcntl(R.pty.slave, fcntl.F_GETFL)
                with lock:
                    hist.append({"k": "req", "timeout": to, "t0": t0, "t1": t1, "w0": w0, "w1": w1, "ret": ret,
                                 "flags_nonblock": bool(fl & os.O_NONBLOCK and not base_flags & os.O_NONBLOCK)})
                if ret[0] == "raise":
                    break
                if ret[0] == "none":
                    # a threadsafe trigger that returned long before this request gave up must
                    # have woken it
                    if to >= 0.3 and any(t0 < tc and tr < t1 - 0.2 for tc, tr in ts_times):
                        problems.append(("missed-wakeup", {"timeout": to, "elapsed": t1 - t0}))
                    if not th.is_alive():
                        # everything has been sent: wait for arrival, then require two idle rounds
                        time.sleep(0.005)
                        idle += 1
                        if idle >= 3 and R.pty.pending() == 0:
                            break
                else:
                    idle = 0
                if time.monotonic() > deadline:
                    ctx.inconclusive_because("concurrent history did not finish within 25 s")
                    break
            if yields:
                trace = yields.stop()
            body_end[0] = time.monotonic()
    except Exception as ex:  # noqa
        problems.append(("raise", {"outside request": repr(ex)}))
    finally:
        if yields and yields.active:
            yields.stop()
        th.join(10)
        Ev.slow = 0.0
        signal.signal(signal.SIGINT, old_handler)
    if late:
        ctx.count("sigints_after_context_left", len(late))
        if body_end[0] is not None and any(t < body_end[0] for t in late):
            # with sigint_event=True every SIGINT that arrives inside the context is Input's to take
            problems.append(("sigints", {"what": "a SIGINT inside the context reached the application's handler, not Input",
                                         "count": sum(1 for t in late if t < body_end[0])}))
    release_trigger_fds(inp, ts)
    problems += inputq.check(hist, drained=True, concurrent=True)
    if yields is not None:
        ctx.notes.setdefault("interleavings", [])
        ctx.interleavings.add(hash(trace))
        ctx.count("yields_injected", len(trace))
    finish_history(ctx, case, hist, problems)


def run_pingpong(ctx, case, yields=None):
    """Wake-up stress: in every round exactly one threadsafe trigger is fired by a helper
    thread at (about) the moment the main thread starts a request; the request must return
    that event - a request that gives up after its whole timeout although the callback had
    returned long before has lost the wake-up."""
    R = rig()
    Ev, Sch = _CLS[0]
    R.pty.drain_slave()
    inp = R.ci.Input(R.pty.stream, keynames="bytes", sigint_event=False)
    ts = inp.threadsafe_event_trigger(Ev)
    rounds = case["rounds"]
    import random as _r
    rng = _r.Random(case["seed"])
    go = threading.Semaphore(0)
    done = threading.Event()
    fired = {}

    def helper():
        for i in range(rounds):
            go.acquire()
            d = delays[i]
            if d:
                t_end = time.perf_counter() + d
                while time.perf_counter() < t_end:
                    pass
            ts(src="pp", i=i)
            fired[i] = time.monotonic()
        done.set()

    delays = [rng.choice([0, 0, 1e-5, 3e-5, 1e-4, 3e-4, 1e-3]) for _ in range(rounds)]
    Ev.slow = case.get("slow_ctor", 0.0)
    th = threading.Thread(target=helper, name="helper")
    lost = []
    got_wrong = []
    try:
        with inp:
            th.start()
            if yields:
                yields.start(case["seed"])
            for i in range(rounds):
                go.release()
                t0 = time.monotonic()
                e = inp.send(0.4)
                t1 = time.monotonic()
                ret = describe(e)
                if ret[0] == "none":
                    # wait until the callback has certainly returned, then look again
                    while i not in fired and time.monotonic() < t1 + 10:
                        time.sleep(0.001)
                    if i not in fired:
                        ctx.count("pingpong_helper_starved")      # machine too loaded: judge nothing
                        break
                    if fired[i] < t1 - 0.2:
                        lost.append({"round": i, "delay": delays[i], "waited": t1 - t0,
                                     "callback_returned_before_giving_up_by": t1 - fired[i]})
                    e2 = inp.send(0.4)
                    if describe(e2) != ("ev", "pp", i):
                        got_wrong.append({"round": i, "second": describe(e2)})
                elif ret != ("ev", "pp", i):
                    got_wrong.append({"round": i, "got": ret})
            if yields:
                yields.stop()
    finally:
        if yields and yields.active:
            yields.stop()
        for _ in range(rounds):
            go.release()
        th.join(10)
        Ev.slow = 0.0
        release_trigger_fds(inp, [ts])
    sig = ("C08", "pingpong", case["seed"], rounds)
    ctx.count("pingpong_rounds", rounds)
    if lost:
        ctx.judge(False, case, sig, "C08:missed-wakeup", "every round's event returned by its request", lost[:3])
    elif got_wrong:
        ctx.judge(False, case, sig, "C08:events", "event of round i in round i", got_wrong[:3])
    else:
        ctx.judge(True, case, sig)


def run_pairs_blocking(ctx, case):
    """as run_pairs, but the requesting thread BLOCKS (finite timeout) between the two events: the
    second event - whose constructor takes a while, so that its trigger call overlaps the first
    event being handed out - has to wake the blocked request like the first did"""
    R = rig()
    Ev, Sch = _CLS[0]
    R.pty.drain_slave()
    inp = R.ci.Input(R.pty.stream, keynames="bytes", sigint_event=False)

    def slow_event(src=None, i=None):
        time.sleep(case["ctor_s"])
        return Ev(src=src, i=i)
    ts_fast = inp.threadsafe_event_trigger(Ev)
    ts_slow = inp.threadsafe_event_trigger(slow_event)
    rounds = case["rounds"]
    go = threading.Semaphore(0)
    returned = {}

    def helper():
        for i in range(rounds):
            go.acquire()
            ts_fast(src="pa", i=i)
            ts_slow(src="pb", i=i)
            returned[i] = time.monotonic()
    th = threading.Thread(target=helper, name="helper")
    problems = []
    to = 0.6
    try:
        with inp:
            th.start()
            for i in range(rounds):
                go.release()
                got = []
                for _ in range(4):
                    t0 = time.monotonic()
                    r = describe(inp.send(to))
                    t1 = time.monotonic()
                    if r[0] != "none":
                        got.append(r)
                        if len(got) == 2:
                            break
                    elif i in returned and returned[i] < t1 - 0.3 and t0 < returned[i]:
                        # the second trigger call returned while this request was blocked, 0.3 s and
                        # more before it gave up: it was not woken
                        problems.append(("missed-wakeup", {"round": i, "timeout": to, "got_so_far": got}))
                        break
                if problems or got != [("ev", "pa", i), ("ev", "pb", i)]:
                    if not problems:
                        problems.append(("events", {"round": i, "got": got}))
                    break
    finally:
        for _ in range(rounds):
            go.release()
        th.join(10)
        release_trigger_fds(inp, [ts_fast, ts_slow])
    ctx.count("blocking_pair_rounds", rounds)
    sig = ("C08", "pairs-blocking", rounds, case["ctor_s"], case.get("n", 0))
    if problems:
        ctx.judge(False, case, sig, "C08:" + problems[0][0], "both events, each waking the blocked request", problems[0][1])
    else:
        ctx.judge(True, case, sig)


def run_pairs(ctx, case):
    """Two threadsafe triggers fired back to back by a helper thread - the second one with an
    event type whose constructor takes a while, as a user's may - while the requesting thread
    polls with timeout 0: both events must come out, in trigger order, exactly once."""
    R = rig()
    Ev, Sch = _CLS[0]
    R.pty.drain_slave()
    inp = R.ci.Input(R.pty.stream, keynames="bytes", sigint_event=False)
    made = []

    def slow_event(src=None, i=None):
        time.sleep(case["ctor_s"])
        return Ev(src=src, i=i)
    ts_fast = inp.threadsafe_event_trigger(Ev)
    ts_slow = inp.threadsafe_event_trigger(slow_event)
    rounds = case["rounds"]
    go = threading.Semaphore(0)
    fired = []

    def helper():
        for i in range(rounds):
            go.acquire()
            ts_fast(src="pa", i=i)
            ts_slow(src="pb", i=i)
            fired.append(i)

    th = threading.Thread(target=helper, name="helper")
    lost, wrong = [], []
    try:
        with inp:
            th.start()
            for i in range(rounds):
                go.release()
                got = []
                deadline = time.monotonic() + 3.0
                while len(got) < 2 and time.monotonic() < deadline:
                    r = describe(inp.send(0))
                    if r[0] != "none":
                        got.append(r)
                    elif len(fired) > i and len(got) < 2:
                        # both callbacks have returned: one more look, then give up
                        r = describe(inp.send(0.05))
                        if r[0] != "none":
                            got.append(r)
                        else:
                            break
                if len(fired) <= i:
                    ctx.count("pairs_helper_starved")
                    break
                if got != [("ev", "pa", i), ("ev", "pb", i)]:
                    (lost if len(got) < 2 else wrong).append({"round": i, "got": got})
                    break
    finally:
        for _ in range(rounds):
            go.release()
        th.join(10)
        release_trigger_fds(inp, [ts_fast, ts_slow])
    sig = ("C08", "pairs", rounds, case["ctor_s"], case.get("n", 0))
    ctx.count("pair_rounds", rounds)
    ctx.judge(not lost and not wrong, case, sig, "C08:events", "both events of every round, in trigger order",
              (lost or wrong)[:2])


class Runaway(BaseException):
    """One and the same request was still computing when the CPU budget of its history ran out
    (30 s of this process's own CPU time - ITIMER_VIRTUAL: time spent waiting, or taken by other
    processes on a loaded machine, does not count) and again 15 CPU-seconds later."""


_GUARD = [False]
CPU_BUDGET = 30.0


def _guarded(fn):
    def guarded(ctx, case, *a, **kw):
        if _GUARD[0] or threading.current_thread() is not threading.main_thread():
            return fn(ctx, case, *a, **kw)

        state = {"frame": None, "outside": 0}

        def on_timer(sig, frame):
            # which request (frame of Input.send) is the main thread in, if any
            inside = None
            f = frame
            while f is not None:
                if f.f_code.co_filename.endswith(os.sep + "input.py") and f.f_code.co_name == "send":
                    inside = f
                    break
                f = f.f_back
            if inside is not None and inside is state["frame"]:
                # the very same request was running when the budget ran out the last time
                raise Runaway("send")
            if inside is None:
                state["outside"] += 1
                if state["outside"] >= 4:
                    raise Runaway(None)
            state["frame"] = inside
            signal.setitimer(signal.ITIMER_VIRTUAL, budget / 2)
        budget = CPU_BUDGET if not _GUARD[1:] else 2.0      # once a runaway request has been seen, the rest of the run only needs to finish
        old = signal.signal(signal.SIGVTALRM, on_timer)
        _GUARD[0] = True
        signal.setitimer(signal.ITIMER_VIRTUAL, budget)
        try:
            return fn(ctx, case, *a, **kw)
        except Runaway as ex:
            if ex.args[0] and not _GUARD[1:]:
                _GUARD.append("seen")
                # a single request that computes for 15 CPU-seconds and more without returning:
                # whatever its timeout, it neither delivers nor gives up
                ctx.judge(False, case, mech="C08:request-computes-without-returning",
                          expected="every request returns", got="more than %d s of CPU time inside one Input.%s" % (CPU_BUDGET / 2, ex.args[0]))
            elif not _GUARD[1:]:
                ctx.inconclusive_because("a history used %d s of CPU time outside any request" % (CPU_BUDGET * 2.5))
        finally:
            signal.setitimer(signal.ITIMER_VIRTUAL, 0)
            signal.signal(signal.SIGVTALRM, old)
            _GUARD[0] = False
    guarded.__name__ = fn.__name__
    return guarded


for _n in ("run_seq", "run_buffered", "run_split", "run_prefixchar", "run_lateunit", "run_behind_incomplete",
           "run_trickle", "run_flood", "run_names", "run_conc", "run_pingpong", "run_pairs_blocking", "run_pairs"):
    globals()[_n] = _guarded(globals()[_n])


def run_case(ctx, case):
    if case.get("kind") == "pingpong":
        return run_pingpong(ctx, case)
    if case.get("kind") == "pairs":
        return run_pairs(ctx, case)
    if case.get("kind") == "pairs-blocking":
        return run_pairs_blocking(ctx, case)
    if not hasattr(ctx, "interleavings"):
        ctx.interleavings = set()
    if case["kind"] == "seq":
        run_seq(ctx, case)
    elif case["kind"] == "names":
        run_names(ctx, case)
    elif case["kind"] == "conc":
        run_conc(ctx, case)
    elif case["kind"] == "buffered":
        run_buffered(ctx, case)
    elif case["kind"] == "flood":
        run_flood(ctx, case)
    elif case["kind"] == "prefixchar":
        run_prefixchar(ctx, case)
    elif case["kind"] == "lateunit":
        run_lateunit(ctx, case)
    elif case["kind"] == "trickle":
        run_trickle(ctx, case)
    elif case["kind"] == "behind-incomplete":
        run_behind_incomplete(ctx, case)
    elif case["kind"] == "split":
        run_split(ctx, case)


def run(ctx):
    rng = ctx.rng
    R = rig()
    ctx.interleavings = set()
    quick = ctx.quick
    for _ in range(ctx.share(600 if quick else 20000)):
        run_seq(ctx, gen_script(rng, R))
        ctx.count("sequential_histories")
    for _ in range(ctx.share(160 if quick else 5000)):
        sizes = [rng.choice([5, 30, 500, 1020, 1023, 1024, 1026, 1500, 2046, 2049, 3000, 3072, 3074, 4000])
                 for _ in range(rng.randint(1, 3))]
        run_names(ctx, {"kind": "names", "mode": rng.choice(["curtsies", "curses", "bytes"]),
                        "paste_threshold": rng.choice(THRESHOLDS), "bursts": [burst(rng, R, s) for s in sizes]})
        ctx.count("name_mode_histories")
    for _ in range(ctx.share(160 if quick else 6000)):
        run_buffered(ctx, gen_buffered(rng, R))
        ctx.count("bursts_behind_buffered_keys")
    for _ in range(ctx.share(200 if quick else 8000)):
        run_split(ctx, gen_split(rng, R))
        ctx.count("split_keypress_histories")
    for _ in range(ctx.share(16 if quick else 600)):
        run_trickle(ctx, {"kind": "trickle", "unit": chr(rng.choice([0x1F600, 0x10348, 0x1F40D])).encode("utf-8"),
                          "timeout": rng.choice([0.3, 0.5]), "gap": rng.choice([0.15, 0.25, 0.3]),
                          "paste_threshold": rng.choice([None, 8])})
    for _ in range(ctx.share(80 if quick else 3000)):
        run_behind_incomplete(ctx, gen_behind_incomplete(rng, R))
        ctx.count("bursts_behind_incomplete_keypress")
    for _ in range(ctx.share(160 if quick else 6000)):
        run_lateunit(ctx, gen_lateunit(rng, R))
    for _ in range(ctx.share(120 if quick else 5000)):
        run_prefixchar(ctx, gen_prefixchar(rng, R))
        ctx.count("prefix_then_character_histories")
    for i in range(ctx.share(8 if quick else 400)):
        run_flood(ctx, {"kind": "flood", "size": rng.choice([6000, 20000, 60000]), "mix": i % 2 == 1,
                        "chunks": rng.choice([[4096], [4096], [1000, 4096, 5000], [3, 50, 700, 4096, 65536], [65536]]),
                        "paste_threshold": rng.choice([None, 8, 8]), "seed": rng.randrange(1 << 30)})
        ctx.count("floods")
    yields = inject.Yields(0, p=0.08)
    yields.install()
    try:
        for i in range(ctx.share(120 if quick else 5000)):
            case = gen_concurrent(rng, R)
            run_conc(ctx, case, yields if (yields and i % 2 == 0) else None)
            ctx.count("concurrent_histories")
        for i in range(ctx.share(8 if quick else 600)):
            run_pingpong(ctx, {"kind": "pingpong", "rounds": 400, "seed": rng.randrange(1 << 30),
                               "slow_ctor": rng.choice([0.0, 0.0003, 0.001])},
                         yields if i % 2 else None)
        for i in range(ctx.share(8 if quick else 600)):
            run_pairs(ctx, {"kind": "pairs", "rounds": 150, "ctor_s": rng.choice([0.0002, 0.001, 0.003]), "n": i})
        for i in range(ctx.share(8 if quick else 300)):
            run_pairs_blocking(ctx, {"kind": "pairs-blocking", "rounds": 40, "ctor_s": rng.choice([0.0005, 0.002, 0.005]), "n": i})
    finally:
        if yields:
            yields.uninstall()
    ctx.notes["distinct_interleavings_under_yield_injection"] = len(ctx.interleavings)
    ctx.notes.pop("interleavings", None)
    if _RIG[0] is not None:
        _RIG[0].close()
        _RIG[0] = None
