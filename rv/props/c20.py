"""C20 - key naming modes and config-file key names are mutually consistent."""
from .. import keysengine
from ..model.keys import Facts, drive, Incomplete

LEVEL = "exploration"
RULE = ("The C03 exploration engine walks the decoder's decision tree (complete for ascii and "
        "latin-1, ESC subtree + two levels for utf-8, deeper levels sampled) and every node is "
        "executed in all three naming modes with full=False and full=True: the modes must agree "
        "on {asks for more, returns a key, raises} (same exception type), 'bytes' naming must "
        "return exactly the bytes given; random streams of table sequences and characters must "
        "be cut at the same places by the three modes. Tables: every CURSES_NAMES sequence must "
        "be in CURTSIES_NAMES. Configuration names: every valid name (C-a..C-z, C-[ C-\\ C-] C-^ "
        "C-_, M-<printable non-space ASCII>, F1..F12) must map only to names the decoder was "
        "OBSERVED to produce during the exploration (a monitor on the curtsies-mode results "
        "collects the producible set); '' must map to (); a catalogue of invalid names is "
        "recorded. distinct = distinct (encoding, bytes) nodes + config names; non-trivial = "
        "more than one byte or non-ASCII.")
FLOOR = 3000
SHARDS = {"thorough": 16}
ASSUMPTIONS = ["C-1, F13, C-ab and the like are not keys a configuration file can name (recorded, not judged); C-<upper case letter> "
               "and M-<space> may be refused or accepted, and are judged when accepted; M-<non-ASCII character> is outside "
               "'printable characters' (the decoder has no name for ESC + a non-ASCII character)"]

ENCODINGS = ("ascii", "latin-1", "utf-8")


def config_names():
    names = ["C-%s" % chr(c) for c in range(ord("a"), ord("z") + 1)]
    names += ["C-[", "C-\\", "C-]", "C-^", "C-_"]
    names += ["M-%s" % chr(c) for c in range(0x21, 0x7F)]
    names += ["F%d" % i for i in range(1, 13)]
    return names


# spellings a configuration file may plausibly use for keys that exist (Ctrl-Shift-a sends the byte
# Ctrl-a sends; Alt-space): refusing them with KeyError is fine, accepting them is fine - but an
# accepted name must be one the decoder produces, or the binding is silently dead
OPTIONAL_CONFIG = ["C-%s" % chr(c) for c in range(ord("A"), ord("Z") + 1)] + ["M- "]
INVALID_CONFIG = ["x", "C-", "M-", "F", "Fx", "ctrl-a", "C-ab", "F0", "F13", "C-1", "  "]


def shape(out):
    return out[0] if out[0] != "raise" else out


def judge_node(ctx, enc, seq, res, producible):
    nontrivial = len(seq) > 1 or seq[0] >= 0x80
    for full in (False, True):
        outs = {m: res[(m, full)] for m in keysengine.MODES}
        shapes = {m: shape(o) for m, o in outs.items()}
        case = {"kind": "node", "encoding": enc, "seq": seq, "full": full}
        sig = ("C20", enc, seq, full)
        if len(set(shapes.values())) != 1:
            ctx.judge(False, case, sig, "C20:modes-disagree", None, {m: repr(o) for m, o in outs.items()},
                      nontrivial=nontrivial)
            continue
        b = outs["bytes"]
        if b[0] == "key" and b[1] != seq:
            ctx.judge(False, case, sig, "C20:bytes-mode-alters-bytes", seq, b[1], nontrivial=nontrivial)
            continue
        ctx.seen(sig, nontrivial)
        c = outs["curtsies"]
        if c[0] == "key" and isinstance(c[1], str):
            producible.add(c[1])


def stream_agreement(ctx, enc, data, chunks):
    from curtsies import events
    km = keysengine.modes()
    cuts = {}
    for m in keysengine.MODES:
        try:
            keys = drive(events.get_key, chunks, enc, km[m])
            if m == "bytes":
                cuts[m] = [len(k) for k in keys]
                byts = keys
            else:
                cuts[m] = len(keys)
        except Incomplete:
            cuts[m] = "incomplete"
        except Exception as ex:  # noqa
            cuts[m] = type(ex).__name__
    case = {"kind": "stream", "encoding": enc, "data": data, "chunks": chunks}
    sig = ("C20", "stream", enc, data, tuple(map(len, chunks)))
    nb = cuts["bytes"]
    n = len(nb) if isinstance(nb, list) else nb
    ok = cuts["curtsies"] == n and cuts["curses"] == n
    if ok and isinstance(nb, list):
        ok = b"".join(byts) == data
    ctx.judge(ok, case, sig, "C20:modes-cut-differently", None, {k: repr(v) for k, v in cuts.items()})


def input_agreement(ctx, case):
    """the same bytes through three real Input objects, one per naming mode: same number of
    keypresses, and 'bytes' naming hands back exactly the bytes - also where Input has to recover
    from a decoder failure (a sequence prefix followed by a non-ASCII character)"""
    from .c03_e2e import Session
    enc, data = case["encoding"], case["data"]
    outs = {}
    for mode in keysengine.MODES:
        sess = Session(enc, mode, None)
        try:
            try:
                outs[mode] = sess.read_all(data)
            except TimeoutError:
                ctx.inconclusive_because("pty did not deliver bytes within 5 s")
                return
            except Exception as ex:  # noqa
                outs[mode] = ("raise", type(ex).__name__)
        finally:
            sess.close()
    sig = ("C20", "input", enc, data)
    shapes = {m: (o if isinstance(o, tuple) else len(o)) for m, o in outs.items()}
    problems = []
    if len(set(map(repr, shapes.values()))) != 1:
        problems.append("modes disagree on the number of keypresses / on failing: %r" % (shapes,))
    b = outs.get("bytes")
    if isinstance(b, list):
        if not all(isinstance(k, bytes) for k in b):
            problems.append("'bytes' naming returned a non-bytes key: %r" % ([k for k in b if not isinstance(k, bytes)][:3],))
        elif not data.startswith(b"".join(b)) or len(data) - len(b"".join(b)) >= 8:
            problems.append("'bytes' naming did not return the bytes given")
    ctx.judge(not problems, case, sig, "C20:input-modes-disagree", None, {m: repr(o)[:80] for m, o in outs.items()}, problems,
              nontrivial=len(data) > 1)
    ctx.count("input_level_mode_agreement")


def run_case(ctx, case):
    if case.get("kind") == "input-agreement":
        return input_agreement(ctx, case)
    kind = case["kind"]
    if kind == "node":
        from curtsies import events
        km = keysengine.modes()
        seq, enc = case["seq"], case["encoding"]
        res = {(m, f): keysengine.outcome(events.get_key, seq, enc, km[m], f)
               for m in keysengine.MODES for f in (False, True)}
        judge_node(ctx, enc, seq, res, set())
    elif kind == "stream":
        stream_agreement(ctx, case["encoding"], case["data"], case["chunks"])
    elif kind == "config":
        prod = producible_quick()
        judge_config(ctx, case["name"], prod, may_reject=case.get("may_reject", False))
    elif kind == "tables":
        judge_tables(ctx)


def producible_quick():
    """names produced for every table sequence and printable character (replay helper)"""
    from curtsies import events
    prod = set()
    for enc in ENCODINGS:
        facts = Facts(enc)
        for T in facts.table:
            for full in (False, True):
                o = keysengine.outcome(events.get_key, T, enc, events.Keynames.CURTSIES, full)
                if o[0] == "key":
                    prod.add(o[1])
    return prod


def classify_config(name, missing):
    if name == "C-i":
        return "C20:ctrl-i-is-tab"
    if name in OPTIONAL_CONFIG:
        return "C20:accepted-config-name-is-dead"
    return "C20:config-name-not-producible"


def judge_config(ctx, name, producible, may_reject=False):
    from curtsies.configfile_keynames import keymap
    case = {"kind": "config", "name": name}
    if may_reject:
        case["may_reject"] = True
    try:
        got = keymap[name]
    except KeyError as ex:
        if may_reject:
            ctx.judge(True, case, ("C20", "config", name))
            ctx.count("optional_config_name_rejected")
            return
        ctx.judge(False, case, ("C20", "config", name), "C20:config-name-rejected", "names", repr(ex))
        return
    except Exception as ex:  # noqa
        ctx.judge(False, case, ("C20", "config", name), "C20:config-name-rejected", "names", repr(ex))
        return
    missing = [n for n in got if n not in producible]
    ok = isinstance(got, tuple) and len(got) > 0 and not missing
    ctx.judge(ok, case, ("C20", "config", name), classify_config(name, missing),
              "names the decoder produces", list(got), {"not producible": missing})


def judge_tables(ctx):
    from curtsies import events
    missing = sorted(k for k in events.CURSES_NAMES if k not in events.CURTSIES_NAMES)
    ctx.judge(not missing, {"kind": "tables"}, ("C20", "tables"), "C20:curses-name-without-curtsies-name",
              "CURSES_NAMES subset of CURTSIES_NAMES", missing)
    for k, v in list(events.CURTSIES_NAMES.items()) + list(events.CURSES_NAMES.items()):
        ok = isinstance(k, bytes) and isinstance(v, str) and k and v
        ctx.judge(ok, {"kind": "tables", "key": k}, ("C20", "entry", k, v), "C20:malformed-table-entry")


def run(ctx):
    rng = ctx.rng
    producible = set()
    # every shard explores the (cheap) trees itself: the producible set must be complete
    for enc in ENCODINGS:
        n = keysengine.explore(enc, rng, lambda s, r: judge_node(ctx, enc, s, r, producible))
        ctx.notes["tree_nodes_%s" % enc] = n
    ctx.exhaustive = True
    ctx.notes["producible_names_observed"] = len(producible)
    from .c03 import units_for
    for enc in ENCODINGS:
        facts = Facts(enc)
        for _ in range(ctx.share(2000 if ctx.quick else 80000)):
            units = [units_for(facts, rng) for _ in range(rng.randint(1, 6))]
            data = b"".join(units)
            chunks, cur = [], b""
            for u in units:
                cur += u
                if rng.random() < .4:
                    chunks.append(cur)
                    cur = b""
            if cur:
                chunks.append(cur)
            stream_agreement(ctx, enc, data, chunks)
            ctx.count("random_streams")
    if ctx.shard[0] == 0:
        facts8 = Facts("utf-8")
        for i in range(40 if ctx.quick else 1500):
            units = [units_for(facts8, rng) for _ in range(rng.randint(1, 5))]
            if i % 2:
                units.insert(rng.randint(0, len(units)), rng.choice([b"\x1b", b"\x1b[", b"\x1bO"]) +
                             chr(rng.choice([0xE9, 0x20AC, 0x1F600])).encode("utf-8"))
            input_agreement(ctx, {"kind": "input-agreement", "encoding": "utf-8", "data": b"".join(units)})
        judge_tables(ctx)
        for name in config_names():
            judge_config(ctx, name, producible)
            ctx.count("config_names")
        for name in OPTIONAL_CONFIG:
            judge_config(ctx, name, producible, may_reject=True)
            ctx.count("optional_config_names")
        from curtsies.configfile_keynames import keymap
        try:
            r = keymap[""]
        except Exception as ex:  # noqa
            r = repr(ex)
        ctx.judge(r == (), {"kind": "config", "name": ""}, ("C20", "unbound"), "C20:unbound-not-empty", (), r)
        # the mapping is a function of the name: repeated lookups, interleaved with other
        # valid, invalid and unbound names, must always give the same answer
        names = config_names() + INVALID_CONFIG + [""]
        answers = {}
        order = [rng.choice(names) for _ in range(4000)] + names + names[::-1]
        prev = None
        for name in order + [x for n in INVALID_CONFIG for x in (n, n, "C-a", n)]:
            try:
                a = ("ok", keymap[name])
            except Exception as ex:  # noqa
                a = ("raise", type(ex).__name__)
            if name in answers and answers[name] != a:
                ctx.judge(False, {"kind": "config-history", "name": name, "previous_lookup": prev},
                          ("C20", "confighist", name, prev), "C20:keymap-answer-depends-on-history",
                          answers[name], a)
                break
            answers.setdefault(name, a)
            prev = name
        else:
            ctx.judge(True, {"kind": "config-history"}, ("C20", "confighist"))
        ctx.count("config_lookups_in_histories", len(order))
        for name in INVALID_CONFIG:
            try:
                ctx.count("invalid_config:%s->%r" % (name, keymap[name]))
            except KeyError:
                ctx.count("invalid_config_keyerror")
            except Exception as ex:  # noqa
                ctx.count("invalid_config:%s raises %s" % (name, type(ex).__name__))
