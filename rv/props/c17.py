"""C17 - fmtstr accepts any string: never raises, never loses ordinary text."""
import itertools
import os
import re

from .. import obs, env

LEVEL = "exploration"
RULE = ("fmtstr(s) and FmtStr.from_str(s) are executed on (a) every string of up to N tokens over "
        "a 16-token alphabet (ordinary characters, newline, carriage return, ESC, 0x9B, '[', digits, ';', '?', "
        "intermediate, finals, complete SGR) - N=4 quick, 5 thorough - plus random longer ones: "
        "must not raise, result text must be a subsequence of s, and a string without ESC/0x9B "
        "must come back verbatim and unformatted; (b) strings generated from TAGGED pieces (the "
        "generator knows which pieces are text): text pieces must survive in order; when all "
        "escapes are 7-bit numeric CSI sequences the text must be exactly the text pieces; "
        "(c) Pygments Terminal/Terminal256 formatter output of the repository's own sources and "
        "literal samples. distinct = distinct input strings; non-trivial = contains ESC or 0x9B.")
FLOOR = 1000
SHARDS = {"thorough": 16}
ASSUMPTIONS = ["'part of an escape sequence' is decided by construction (tagged generator), not by a second parser",
               "ordinary numeric CSI = (ESC [ | 0x9B) parameters final-letter, parameters = ASCII digits and ';' (empty "
               "parameters allowed, ECMA-48 5.4.2)"]

TOKENS = ["a", " ", "\n", "\r", "\x1b", "\x9b", "[", "1", "38", ";", "?", "!", "m", "H", "\x1b[31m", "\x1b["]
TEXT_ALPHA = ["a", "b", " ", "\n", "[", "m", "1", ";", "?", "~", "一", "\t", "H", "C", "\r", "\r\n", "\x0c", "\x85", "\u2028", "\x1c", "\x0b"]
SUPPORTED = [0, 1, 2, 3, 4, 5, 7, 31, 32, 39, 44, 49]
UNSUPPORTED = [6, 8, 9, 21, 22, 38, 5, 196, 48, 90, 97, 100, 107, 200, 10]


def is_subseq(a, b):
    it = iter(b)
    return all(c in it for c in a)


def numeric_csi(rng):
    kind = rng.random()
    if kind < .35:
        nums = [rng.choice(SUPPORTED) for _ in range(rng.randint(0, 3))]
        fin = "m"
    elif kind < .6:
        nums = [rng.choice(UNSUPPORTED + SUPPORTED) for _ in range(rng.randint(1, 4))]
        fin = "m"
    else:
        nums = [rng.choice([0, 1, 2, 5, 10, 24, 80]) for _ in range(rng.randint(0, 2))]
        fin = rng.choice("HABCDJKGfdST")
    if nums and rng.random() < .2:
        # ECMA-48 5.4.2: a parameter may be empty (it then has its default value)
        nums = list(nums)
        nums[rng.randrange(len(nums))] = ""
        if rng.random() < .3:
            nums.insert(0, "")
    csi = "\x9b" if rng.random() < .12 else "\x1b["
    return csi + ";".join(map(str, nums)) + fin


def other_escape(rng):
    return rng.choice(["\x1b[?25l", "\x1b[?1049h", "\x1b[?12l\x1b[?25h", "\x1b[>c", "\x1b[1 q",
                       "\x1bM", "\x1b7", "\x1b8", "\x1bc", "\x1b(B",
                       "\x1b[!p", "\x1b[1;2;3;4;5;6;7;8;9;10m", "\x1b[;m", "\x1b[1;;2m", "\x1b[1;m",
                       "\x1b[;1m", "\x1b[31;m", "\x1b[;;m", "\x1b[38m", "\x1b[48;5m", "\x1b[1;38m"])


EMPTY_PARAM = re.compile(r"(?:\x1b\[|\x9b)(?:;|[0-9;]*;;|[0-9;]*;[A-Za-z])")
NONASCII_DIGIT = re.compile(r"\x1b\[[0-9;]*[^\x00-\x7f]")


def classify(s, exc=None, lost=False):
    if lost and NONASCII_DIGIT.search(s):
        return "C17:non-ascii-digit-swallowed"
    if not lost and "\x9b" in s and "\x1b[" not in s:
        return "C17:8bit-csi-kept"
    if not lost and EMPTY_PARAM.search(s):
        return "C17:empty-parameter"
    if lost:
        return "C17:text-lost"
    if "\n" in s:
        return "C17:newline"
    return "C17:text"


def judge(ctx, case, s, text_only=None, exact=False):
    from curtsies.formatstring import FmtStr, fmtstr
    nontrivial = "\x1b" in s or "\x9b" in s
    for name, fn in (("fmtstr", fmtstr), ("from_str", FmtStr.from_str)):
        sig = ("C17", name, s)
        try:
            r = fn(s)
            t = r.s
            cs = obs.cells_struct(r)
        except Exception as e:  # noqa
            ctx.judge(False, case, sig, "C17:raises", "no exception", repr(e), name,
                      nontrivial=nontrivial)
            continue
        if not nontrivial:
            ok = t == s and cs == obs.observe(s) and len(r) == len(s)
            ctx.judge(ok, case, sig, "C17:plain-not-verbatim", s, [t, obs.show(cs)], name,
                      nontrivial=False)
            ctx.count("plain_strings")
            continue
        if not is_subseq(t, s):
            ctx.judge(False, case, sig, "C17:not-a-subsequence", s, t, name)
            continue
        if text_only is not None:
            if exact and t != text_only:
                ctx.judge(False, case, sig, classify(s), text_only, t, name)
                continue
            if not is_subseq(text_only, t):
                ctx.judge(False, case, sig, classify(s, lost=True), text_only, t, name)
                continue
        ctx.judge(True, case, sig)


def run_case(ctx, case):
    if "pieces" in case:
        pieces = case["pieces"]
        s = "".join(p for _, p in pieces)
        text_only = "".join(p for k, p in pieces if k == "t")
        judge(ctx, case, s, text_only, exact=case.get("exact", False))
    else:
        judge(ctx, case, case["string"])


def pygments_samples():
    try:
        from pygments import highlight
        from pygments.lexers import PythonLexer
        from pygments.formatters import TerminalFormatter, Terminal256Formatter
    except Exception:
        return []
    out = []
    root = os.path.join(env.REPO, "curtsies")
    for fn in sorted(os.listdir(root)):
        if fn.endswith(".py"):
            src = open(os.path.join(root, fn), encoding="utf8").read()[:6000]
            src = src.replace("\x1b", "^[").replace("\x9b", "^{")
            for F in (TerminalFormatter, Terminal256Formatter):
                out.append((src, highlight(src, PythonLexer(), F())))
    return out


def run(ctx):
    N = 4 if ctx.quick else 5
    n = 0
    for k in range(0, N + 1):
        for toks in itertools.product(TOKENS, repeat=k):
            n += 1
            if ctx.mine(n):
                run_case(ctx, {"string": "".join(toks)})
                ctx.count("token_strings_enumerated")
    ctx.exhaustive = True
    ctx.notes["token_string_max_tokens"] = N
    rng = ctx.rng
    for _ in range(ctx.share(20000 if ctx.quick else 1500000)):
        s = "".join(rng.choice(TOKENS) for _ in range(rng.randint(4, 9)))
        run_case(ctx, {"string": s})
        ctx.count("token_strings_random")
    for _ in range(ctx.share(15000 if ctx.quick else 2000000)):
        pieces = []
        exact = True
        for _ in range(rng.randint(1, 7)):
            r = rng.random()
            if r < .45:
                pieces.append(["t", "".join(rng.choice(TEXT_ALPHA) for _ in range(rng.randint(0, 3)))])
            elif r < .87:
                pieces.append(["e", numeric_csi(rng)])
            elif r < .9:
                # a truncated sequence followed by a character that no escape sequence can hold
                # (a digit, but not an ASCII one): that character and what follows is text
                pieces.append(["e", "\x1b["])
                pieces.append(["t", rng.choice(["٣", "３", "१"]) + "".join(rng.choice(TEXT_ALPHA) for _ in range(rng.randint(0, 3)))])
                exact = False
            elif r < .93:
                # a sequence cut short by the start of the next one (ESC cancels a sequence in
                # progress and begins another)
                pieces.append(["e", rng.choice(["\x1b[", "\x1b", "\x1b[3", "\x1b[1;"])])
                pieces.append(["e", numeric_csi(rng)])
                exact = False
            else:
                pieces.append(["e", other_escape(rng)])
                exact = False
        run_case(ctx, {"pieces": pieces, "exact": exact})
        ctx.count("tagged_exact" if exact else "tagged_mixed")
    if ctx.shard[0] == 0:
        for src, out in pygments_samples():
            # pygments may add/strip trailing newlines; the text must be what a plain
            # removal of the CSI sequences gives
            text = re.sub(r"\x1b\[[0-9;]*m", "", out)
            pieces = []
            pos = 0
            for m in re.finditer(r"\x1b\[[0-9;]*m", out):
                if m.start() > pos:
                    pieces.append(["t", out[pos:m.start()]])
                pieces.append(["e", m.group()])
                pos = m.end()
            if pos < len(out):
                pieces.append(["t", out[pos:]])
            assert "".join(p for k, p in pieces if k == "t") == text
            run_case(ctx, {"pieces": pieces, "exact": True})
            ctx.count("pygments_samples")
        for s in ["\x1b[m", "a\x1b[mb", "\x1b[38;5;196mred\x1b[0m", "\x1b[2J\x1b[Hhome",
                  "\x1b[1;31mbold red\x1b[22;39m", "x\x1b[10;20Hy\x1b[Kz",
                  "\x1b[;5Hfoo", "\x1b[;Hfoo", "\x1b[;1mbold\x1b[0m", "\x1b[1;;31mred\x1b[m", "a\x1b[;2Jb",
                  "\x9b31mfoo\x9b0m", "\x9b2J\x9bHhello", "a\x9b38;5;100mb", "\x9b;5Hfoo\x1b[0m",
                  # parameters longer than Python's int/str conversion limit (4300 digits)
                  "a\x1b[" + "1" * 5000 + "mb", "\x1b[38;5;" + "9" * 4400 + "mtext\x1b[0m", "x\x1b[" + "7" * 4301 + "Hy"]:
            text = re.sub(r"(?:\x1b\[|\x9b)[0-9;]*[A-Za-z]", "", s)
            pieces = []
            pos = 0
            for m in re.finditer(r"(?:\x1b\[|\x9b)[0-9;]*[A-Za-z]", s):
                if m.start() > pos:
                    pieces.append(["t", s[pos:m.start()]])
                pieces.append(["e", m.group()])
                pos = m.end()
            if pos < len(s):
                pieces.append(["t", s[pos:]])
            run_case(ctx, {"pieces": pieces, "exact": True})
            ctx.count("literal_samples")
