"""C11 - width_aware_splitlines wraps to the column limit without losing anything."""
import itertools

from .. import obs
from ..model import cols
from .c10 import partitions, spec_of

LEVEL = "exploration"
SUITE_MONITOR = True      # also judge the repository's own tests/doctests through rv/monitors.py
RULE = ("Every string up to length N (4 quick, 6 thorough) over {2 narrow, 2 double-width, 1 "
        "combining} x run partitions (with empty runs) x columns 2..7: "
        "list(f.width_aware_splitlines(columns)) is executed and compared line by line with a "
        "greedy reference wrap on cells (widths from the pure-Python wcwidth package): no line "
        "wider than columns, every line but the last exactly columns wide, none empty, all "
        "characters in order with their formatting, additions only a padding space (formatted "
        "like the straddling double-width character). Zero-width characters must all survive in "
        "order; which line they land on is not judged. distinct = distinct (runs, columns); "
        "non-trivial = at least one character.")
FLOOR = 2000
SHARDS = {"quick": 4, "thorough": 16}
ASSUMPTIONS = ["wcwidth (pure Python) and cwcwidth agree on the alphabet used (asserted at start-up)"]


def classify(case):
    runs = [t for t, _ in case["spec"]]
    if not runs:
        return "C11:no-runs"
    if any(t and all(cols.w(c) == 0 for c in t) for t in runs):
        return "C11:zero-width-only-run"
    return "C11:wrap"


def run_case(ctx, case):
    if "a" in case and "b" in case:
        return run_lockstep(ctx, case)
    if "take" in case:
        return run_rewrap(ctx, case)
    spec, columns = case["spec"], case["columns"]
    F = obs.spec_cells(spec)
    f = obs.build(spec)
    mech = classify(case)
    nontrivial = bool(F)
    want = cols.reference_wrap(F, columns)
    try:
        lines = list(f.width_aware_splitlines(columns))
        got = [obs.cells(l) for l in lines]
        widths = [l.width for l in lines]
    except obs.ObservationFailed as ex:
        ctx.judge(False, case, mech="C11:incoherent-result", got=str(ex))
        return
    except Exception as ex:  # noqa
        ctx.judge(False, case, mech=mech, expected=[obs.show(l) for l in want], got=repr(ex),
                  nontrivial=nontrivial)
        return
    problems = []
    if any(len(g) == 0 for g in got):
        problems.append("empty line")
    nz = [[c for c in g if cols.w(c[0])] for g in got]
    # a trailing line holding only zero-width characters (after an exactly full line) is a
    # matter of zero-width placement
    if nz and not nz[-1] and len(nz) > len(want):
        nz = nz[:-1]
    if nz != want:
        problems.append("lines differ from greedy reference")
    for i, g in enumerate(got):
        wd = cols.width(g)
        if wd > columns:
            problems.append("line %d wider than columns" % i)
        if widths[i] != wd:
            problems.append("line %d .width %r but occupies %d columns" % (i, widths[i], wd))
    zin = [c for c in F if cols.w(c[0]) == 0]
    zout = [c for g in got for c in g if cols.w(c[0]) == 0]
    if zin != zout:
        problems.append("zero-width characters lost or reordered")
    ctx.judge(not problems, case, mech=mech, expected=[obs.show(l) for l in want],
              got=[obs.show(g) for g in got], detail=problems, nontrivial=nontrivial)
    if obs.cells(f) != F:
        ctx.judge(False, case, mech="C11:operand-changed")


def run_rewrap(ctx, case):
    """the same object wrapped again after an earlier wrap was only partly consumed"""
    spec, columns, k = case["spec"], case["columns"], case["take"]
    f = obs.build(spec)
    want = cols.reference_wrap(obs.spec_cells(spec), columns)
    nz = lambda g: [[c for c in l if cols.w(c[0])] for l in g if any(cols.w(c[0]) for c in l)]
    try:
        it = f.width_aware_splitlines(columns)
        first = []
        for _ in range(k):
            try:
                first.append(obs.cells(next(it)))
            except StopIteration:
                break
        second = [obs.cells(l) for l in f.width_aware_splitlines(columns)]
        third = [obs.cells(l) for l in f.width_aware_splitlines(columns)]
        rest = [obs.cells(l) for l in it]
    except obs.ObservationFailed as ex:
        ctx.judge(False, case, mech="C11:incoherent-result", got=str(ex))
        return
    except Exception as ex:  # noqa
        ctx.judge(False, case, mech="C11:rewrap", got=repr(ex))
        return
    ok = nz(second) == want and nz(third) == want and nz(first + rest) == want
    ctx.judge(ok, case, ("C11", "rewrap", repr(case)), "C11:rewrap", [obs.show(l) for l in want],
              {"abandoned+rest": [obs.show(l) for l in first + rest], "second": [obs.show(l) for l in second],
               "third": [obs.show(l) for l in third]})


def run_lockstep(ctx, case):
    """two wraps alive at the same time, consumed in lockstep: the method returns a lazy
    iterator, and each must still produce its own lines"""
    A, B = case["a"], case["b"]
    fa, fb = obs.build(A["spec"]), obs.build(B["spec"])
    wa = cols.reference_wrap(obs.spec_cells(A["spec"]), A["columns"])
    wb = cols.reference_wrap(obs.spec_cells(B["spec"]), B["columns"])
    try:
        ia, ib = fa.width_aware_splitlines(A["columns"]), fb.width_aware_splitlines(B["columns"])
        ga, gb = [], []
        done_a = done_b = False
        while not (done_a and done_b):
            if not done_a:
                try:
                    ga.append(obs.cells(next(ia)))
                except StopIteration:
                    done_a = True
            if not done_b:
                try:
                    gb.append(obs.cells(next(ib)))
                except StopIteration:
                    done_b = True
    except obs.ObservationFailed as ex:
        ctx.judge(False, case, mech="C11:incoherent-result", got=str(ex))
        return
    except Exception as ex:  # noqa
        ctx.judge(False, case, mech="C11:interleaved-wraps", got=repr(ex))
        return
    nz = lambda g: [[c for c in l if cols.w(c[0])] for l in g if any(cols.w(c[0]) for c in l)]
    ok = nz(ga) == wa and nz(gb) == wb
    ctx.judge(ok, case, ("C11", "lockstep", repr(case)), "C11:interleaved-wraps",
              [[obs.show(l) for l in wa], [obs.show(l) for l in wb]],
              [[obs.show(l) for l in ga], [obs.show(l) for l in gb]])


def run(ctx):
    ok = cols.agreed(cols.SYMBOLS)
    if ok != cols.SYMBOLS:
        ctx.inconclusive_because("wcwidth and cwcwidth disagree on the alphabet")
        return
    N = 4 if ctx.quick else 6
    n = 0
    for L in range(0, N + 1):
        for chars in itertools.product(cols.SYMBOLS, repeat=L):
            text = "".join(chars)
            for runs in partitions(text, with_empty=True):
                n += 1
                if not ctx.mine(n):
                    continue
                spec = spec_of(runs)
                colrange = range(2, 8) if (L <= 3 or not ctx.quick) else (2, 3, 5)
                for columns in colrange:
                    run_case(ctx, {"spec": spec, "columns": columns})
                ctx.count("layouts_enumerated")
    ctx.exhaustive = True
    ctx.notes["max_length_enumerated"] = N
    rng = ctx.rng
    for _ in range(ctx.share(3000 if ctx.quick else 200000)):
        spec = obs.rand_spec(rng, 6, 5, cols.SYMBOLS + ["c", " "], palette=obs.PALETTE)
        run_case(ctx, {"spec": spec, "columns": rng.randint(2, 9)})
        ctx.count("random_layouts")
    for _ in range(ctx.share(600 if ctx.quick else 40000)):
        mk = lambda: {"spec": obs.rand_spec(rng, 4, 4, cols.SYMBOLS + ["c"], palette=obs.PALETTE),
                      "columns": rng.randint(2, 5)}
        run_lockstep(ctx, {"a": mk(), "b": mk()})
        ctx.count("lockstep_pairs")
        c = mk()
        run_rewrap(ctx, dict(c, take=rng.randint(0, 3)))
        ctx.count("rewraps")
