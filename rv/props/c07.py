"""C07 - CursorAwareWindow keeps history intact and accounts for every scroll."""
from .. import obs, plumbing
from ..model import term as tm

LEVEL = "exploration"
RULE = ("Histories on a real CursorAwareWindow between a recorded out_stream (interpreted by the "
        "reference terminal with scrollback) and a scripted in_stream answering the cursor "
        "queries from the model. Initial screens with 0..rows+3 lines of earlier output, cursor on "
        "the row after them or parked on any earlier row (stale content below), terminal sizes "
        "1-5 x 2-7, 6-8 renders with array heights from {0, 1, H-1, H, H+1, H+3, random}, row "
        "lengths 0..width, any cursor cell, keep_last_line / hide_cursor on and off, then leaving "
        "the context. After EVERY render: lines above the window origin (tracked in absolute line "
        "numbers, advanced by each returned count) unchanged; window lines = array rows then "
        "blanks; model scroll count = max(0, height - rows available); return value = array rows "
        "pushed off the top; cursor on the designated cell when that row is on screen. After "
        "exit: history intact. distinct = distinct (size, origin, previous render, array, "
        "cursor); non-trivial = array with at least one row.")
FLOOR = 500
SHARDS = {"thorough": 16}
ASSUMPTIONS = ["rv/model/term.py xterm semantics; DSR replies are produced by the model into the scripted in_stream",
               "rows not longer than the terminal width (the class documents 'render it anyway')",
               "single-column characters"]


def row_value(r):
    if isinstance(r, str):
        return r, obs.observe(r)
    return obs.build(r), obs.spec_cells(r)


def pad(cs, cols):
    return list(cs) + [tm.BLANK] * (cols - len(cs))


def rstrip_text(row):
    return "".join(c[0] for c in row).rstrip()


def run_case(ctx, case):
    from curtsies import CursorAwareWindow
    rows, cols = case["rows"], case["cols"]
    inp = plumbing.ScriptedIn("ascii")
    term = tm.Term(rows, cols, reply=inp.push)
    out = plumbing.TeeOut(rows, cols, sink=term.feed)
    try:
        for i in range(case["nhist"]):
            term.feed("h%d\r\n" % i)
        if case.get("park") is not None:
            term.feed("\x1b[%d;1H" % (min(case["park"], term.y) + 1))
        # history = every line strictly above the cursor row at entry
        top_abs = len(term.scrollback) + term.y
        hist = [list(r) for r in term.all_main_lines()[:top_abs]]
        w = CursorAwareWindow(out, inp, keep_last_line=case["keep"], hide_cursor=case["hide"])
        base_sig = ("C07", rows, cols, case["nhist"], case.get("park"), case["keep"], case["hide"])
        prev = "fresh"
        frame = None
        w.__enter__()
        entered = True
        try:
            for k, st in enumerate(case["steps"]):
                if case.get("reenter_before") == k and k > 0:
                    # the application leaves the context (suspend) and enters it again with the
                    # same window object: a new context on a screen that holds output
                    w.__exit__(None, None, None)
                    entered = False
                    alll = term.all_main_lines()
                    if [list(r) for r in alll[:len(hist)]] != hist:
                        ctx.judge(False, case, base_sig + ("exit", prev), "C07:exit", None, None,
                                  ["content above the window changed when leaving the context"], True)
                        return
                    top_abs = len(term.scrollback) + term.y
                    hist = [list(r) for r in alll[:top_abs]]
                    w.__enter__()
                    entered = True
                    prev = "re-entered after " + prev
                    frame = None
                    ctx.count("re-entries")
                vals, cells = [], []
                for r in st["array"]:
                    v, c = row_value(r)
                    vals.append(v)
                    cells.append(c)
                if st.get("inplace") and frame is not None:
                    frame[:] = vals          # the application keeps one list and edits it in place
                    vals = frame
                frame = vals
                cp = tuple(st["cursor"])
                top_screen = top_abs - len(term.scrollback)
                sig = base_sig + (top_screen, prev, repr(st["array"]), cp)
                scr0 = term.scrolls
                try:
                    ret = w.render_to_terminal(vals, cp)
                except Exception as ex:  # noqa
                    ctx.judge(False, case, sig, "C07:render", "render", repr(ex), {"step": k}, bool(cells))
                    return
                if term.unknown:
                    ctx.inconclusive_because("reference terminal met a sequence it does not model: %r" % (term.unknown[:3],))
                    return
                h = len(cells)
                avail = rows - top_screen
                want_scrolls = max(0, h - avail)
                want_ret = max(0, want_scrolls - top_screen)
                problems = []
                if term.in_alt:
                    problems.append("on the alternate screen")
                if term.scrolls - scr0 != want_scrolls:
                    problems.append("scrolled %d lines, array needs %d" % (term.scrolls - scr0, want_scrolls))
                if ret != want_ret:
                    problems.append("returned %r, %d array rows were pushed off the top" % (ret, want_ret))
                alll = term.all_main_lines()
                if [list(r) for r in alll[:len(hist)]] != hist:
                    problems.append("content above the window changed")
                win = alll[top_abs:]
                want_win = [pad(c, cols) for c in cells]
                while len(want_win) < len(win):
                    want_win.append([tm.BLANK] * cols)
                if [list(r) for r in win] != want_win:
                    problems.append("window rows differ")
                if h > 0:
                    scr_row = top_abs + cp[0] - len(term.scrollback)
                    if scr_row >= 0 and (term.y, term.x) != (scr_row, cp[1]):
                        problems.append("cursor at %r, designated cell is %r" % ((term.y, term.x), (scr_row, cp[1])))
                ctx.judge(not problems, case, sig, "C07:render-after-re-entry" if prev.startswith("re-entered") else "C07:render",
                          [obs.show(r) for r in want_win], [obs.show(r) for r in win],
                          {"step": k, "problems": problems, "returned": ret, "top_screen_row": top_screen},
                          bool(cells))
                if problems:
                    return
                if isinstance(ret, int) and ret > 0:
                    hist = hist + [pad(c, cols) for c in cells[:ret]]
                    top_abs += ret
                prev = repr(st["array"])
                nxt = case["steps"][k + 1] if k + 1 < len(case["steps"]) else None
                if not (nxt and nxt.get("inplace")):
                    # the frame is dropped before the next one is built (its rows' addresses get reused)
                    frame = vals = v = None
        finally:
            if entered:
                w.__exit__(None, None, None)
        alll = term.all_main_lines()
        problems = []
        if [list(r) for r in alll[:len(hist)]] != hist:
            problems.append("content above the window changed when leaving the context")
        if not term.cursor_visible:
            problems.append("cursor hidden after exit")
        ctx.judge(not problems, case, base_sig + ("exit", prev), "C07:exit", None, None, problems, True)
    finally:
        out.close()
        inp.close()


def gen_case(rng, size=None, steps=6):
    rows, cols = size or (rng.randint(1, 5), rng.randint(2, 7))
    nhist = rng.randint(0, rows + 3)
    case = {"rows": rows, "cols": cols, "nhist": nhist,
            "park": rng.randint(0, rows - 1) if rng.random() < .5 and nhist > 0 else None,
            "keep": rng.random() < .5, "hide": rng.random() < .5, "steps": []}
    prev = None
    for _ in range(steps):
        h = max(0, rng.choice([0, 1, rows - 1, rows, rows + 1, rows + 3, rng.randint(0, rows + 2)]))
        arr = []
        for i in range(h):
            if prev and i < len(prev) and rng.random() < .25:
                arr.append(prev[i])
                continue
            if prev and i < len(prev) and rng.random() < .12:
                from .c02 import shifted
                sh = shifted(rng, prev[i])        # same text, same formats, a run boundary moved
                if sh is not None:
                    arr.append(sh)
                    continue
            L = max(0, rng.choice([0, 1, cols - 1, cols, rng.randint(0, cols)]))
            if L == 0:
                arr.append("")
            elif rng.random() < .3:
                arr.append("".join(rng.choice("abc ") for _ in range(L)))
            else:
                spec, left = [], L
                while left > 0:
                    k = rng.randint(1, min(3, left))
                    spec.append(["".join(rng.choice("abc ") for _ in range(k)), dict(rng.choice(obs.PALETTE))])
                    left -= k
                arr.append(spec)
        step = {"array": arr, "cursor": [rng.randint(0, max(0, h - 1)), rng.randint(0, cols - 1)]}
        if case["steps"] and rng.random() < .3:
            step["inplace"] = True
            if rng.random() < .6 and case["steps"][-1]["cursor"][0] < max(1, h):
                step["cursor"] = list(case["steps"][-1]["cursor"])
        case["steps"].append(step)
        prev = arr
    if rng.random() < .25:
        case["reenter_before"] = rng.randint(1, steps - 1)
        if rng.random() < .5:
            # the typical resume: the same frame is drawn again
            k = case["reenter_before"]
            case["steps"][k] = dict(case["steps"][k - 1], inplace=False)
    return case


SIZES = [(r, c) for r in range(1, 6) for c in range(2, 8)]


def run(ctx):
    rng = ctx.rng
    if ctx.quick:
        for _ in range(ctx.share(1500)):
            run_case(ctx, gen_case(rng))
            ctx.count("histories")
    else:
        n = 0
        for size in SIZES:
            for _ in range(5000):
                n += 1
                if ctx.mine(n):
                    run_case(ctx, gen_case(rng, size, steps=8))
                    ctx.count("histories")
    ctx.notes["sizes_visited"] = len(SIZES)
