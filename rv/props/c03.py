"""C03 - key decoding splits any byte stream losslessly into correctly named keys."""
import itertools

from .. import keysengine
from ..model.keys import Facts, Incomplete, drive

LEVEL = "exploration"
RULE = ("events.get_key is driven incrementally exactly as Input.find_key does. (1) Decision tree: "
        "from the empty string, below every node where the decoder asked for more input, every "
        "next byte (all 256) is tried with full=False and full=True, in all three naming modes; "
        "complete for ascii and latin-1 and for the ESC subtree / first two levels under utf-8 "
        "(deeper invalid UTF-8 continuations are sampled). Facts judged at each node from the "
        "live tables, an independently built prefix set and Python's incremental codecs: P1 "
        "bytes naming returns exactly the bytes pushed; P2 no exception on a prefix of valid "
        "input; P3 'more input' only while the bytes can grow into a table sequence or a "
        "character, and always then (P4/P7: nothing is cut short); P5 a complete table sequence "
        "gets its table name (immediately unless it is a proper prefix of a longer one, always "
        "when the buffer is exhausted); P7 a complete character is reported as itself. "
        "(2) Streams: every table sequence alone, followed by every byte, ordered pairs of table "
        "sequences, Unicode scalar values (all 1,112,064 in thorough; boundaries + sample in "
        "quick), random concatenations under random read chunking. (3) End to end through "
        "Input.send over a pty for the table-sequence cases. distinct = distinct (encoding, "
        "bytes) ; non-trivial = more than one byte or a non-ASCII byte.")
FLOOR = 3000
SHARDS = {"quick": 4, "thorough": 16}
TIMEOUT = {"quick": 900, "thorough": 3000}
ASSUMPTIONS = ["valid input = concatenation of table sequences and validly encoded characters; under utf-8 a "
               "single byte >= 0x80 is a recognised (Meta) key only as the last byte of a read",
               "table names come from the live CURTSIES_NAMES / CURSES_NAMES (the tables are the authority for names)",
               "latin-1 is selected by replacing curtsies.input.getpreferredencoding in the end-to-end runs (no such locale in this image)"]

ENCODINGS = ("ascii", "latin-1", "utf-8")
# other spellings of the same three encodings, as locale.getpreferredencoding() reports them
# (C/POSIX locale: ANSI_X3.4-1968); explored through the table/stream cases, not the whole tree
ALIASES = ("ANSI_X3.4-1968", "US-ASCII", "UTF8", "utf_8", "ISO-8859-1", "latin1", "iso8859-1")


def whole_characters(seq, enc):
    try:
        seq.decode(enc)
        return True
    except UnicodeDecodeError:
        return False


def classify_raise(facts, seq, exc):
    if exc == "UnicodeDecodeError" and len(seq) >= 2 and seq[:-1] in facts.prefixes and seq[-1] >= 0x80:
        return "C03:prefix-then-undecodable-byte"
    return "C03:raises-on-valid-input"


def judge_node(ctx, facts, seq, res):
    enc = facts.encoding
    tp, cp = facts.T_prefix(seq), facts.C_prefix(seq)
    tf, cf = facts.T_full(seq), facts.C_full(seq)
    vnf, vf = facts.valid_nf(seq), facts.valid_f(seq)
    nontrivial = len(seq) > 1 or seq[0] >= 0x80
    for m in keysengine.MODES:
        for full in (False, True):
            out = res[(m, full)]
            case = {"kind": "node", "encoding": enc, "seq": seq, "mode": m, "full": full}
            sig = ("C03", enc, seq, m, full)
            valid = vf if full else vnf
            if out[0] == "raise":
                if valid:
                    ctx.judge(False, case, sig, classify_raise(facts, seq, out[1]), "no exception",
                              out[1], nontrivial=nontrivial)
                else:
                    ctx.seen(sig, nontrivial)
                    ctx.count("raise_outside_valid_input")
                continue
            if out[0] == "key" and m == "bytes" and out[1] != seq:
                ctx.judge(False, case, sig, "C03:bytes-not-preserved", seq, out[1], nontrivial=nontrivial)
                continue
            if not valid:
                ctx.seen(sig, nontrivial)
                ctx.count("outside_valid_input_only_P1")
                continue
            if not full:
                if out[0] == "none" and not (tp or cp):
                    ctx.judge(False, case, sig, "C03:asks-for-more-on-dead-end", "a key", None,
                              nontrivial=nontrivial)
                    continue
                if out[0] == "key" and (tp or cp):
                    ctx.judge(False, case, sig, "C03:cuts-sequence-short", None, out[1],
                              "proper prefix of a table sequence" if tp else "incomplete character",
                              nontrivial=nontrivial)
                    continue
                if out[0] == "key" and (tf or cf):
                    want = facts.name(seq, m)
                    ctx.judge(out[1] in want, case, sig, "C03:wrong-name", sorted(map(repr, want)),
                              out[1], nontrivial=nontrivial)
                    continue
            else:
                if tf or cf:
                    want = facts.name(seq, m)
                    ok = out[0] == "key" and out[1] in want
                    ctx.judge(ok, case, sig, "C03:wrong-name", sorted(map(repr, want)), out,
                              "buffer exhausted", nontrivial=nontrivial)
                    continue
            if out[0] == "key" and not (tf or cf) and not whole_characters(seq, enc):
                # valid input and a keypress is reported although the bytes so far end in the
                # middle of a character: that character can no longer be reported as itself
                ctx.judge(False, case, sig, "C03:character-cut-apart", "no keypress before the character is complete",
                          out[1], "buffer exhausted" if full else None, nontrivial=nontrivial)
                continue
            ctx.seen(sig, nontrivial)


def stream_case(ctx, facts, case, data, chunks=None, expect=None):
    """Drive one stream in all three modes; lossless + no exception; optionally the exact
    list of units expected."""
    from curtsies import events
    km = keysengine.modes()
    chunks = chunks or [data]
    nontrivial = len(data) > 1 or (data and data[0] >= 0x80)
    for m in keysengine.MODES:
        sig = ("C03", "stream", facts.encoding, data, tuple(len(c) for c in chunks), m)
        try:
            keys = drive(events.get_key, chunks, facts.encoding, km[m])
        except Incomplete as ex:
            ctx.judge(False, dict(case, mode=m), sig, "C03:incomplete-at-end-of-valid-read",
                      "keys", "ValueError in find_key for %r" % (ex.args[0],), nontrivial=nontrivial)
            continue
        except Exception as ex:  # noqa
            mech = "C03:raises-on-valid-input"
            if type(ex).__name__ == "UnicodeDecodeError":
                obj = ex.object
                if len(obj) >= 2 and obj[:-1] in facts.prefixes and obj[-1] >= 0x80:
                    mech = "C03:prefix-then-undecodable-byte"
            ctx.judge(False, dict(case, mode=m), sig, mech, "no exception", repr(ex), nontrivial=nontrivial)
            continue
        if m == "bytes":
            ok = b"".join(keys) == data and all(isinstance(k, bytes) and k for k in keys)
            ctx.judge(ok, dict(case, mode=m), sig, "C03:bytes-not-preserved", data, keys,
                      nontrivial=nontrivial)
            if ok and expect is not None:
                ctx.judge(keys == expect, dict(case, mode=m), sig + ("cut",), "C03:wrong-segmentation",
                          expect, keys, nontrivial=nontrivial)
        elif expect is not None:
            want = [facts.name(u, m) for u in expect]
            ok = len(keys) == len(want) and all(k in w for k, w in zip(keys, want))
            ctx.judge(ok, dict(case, mode=m), sig, "C03:wrong-name", [sorted(map(repr, w)) for w in want],
                      keys, nontrivial=nontrivial)
        else:
            ctx.seen(sig, nontrivial)


def run_case(ctx, case):
    facts = Facts(case["encoding"])
    kind = case["kind"]
    if kind == "node":
        from curtsies import events
        km = keysengine.modes()
        seq = case["seq"]
        res = {(m, f): keysengine.outcome(events.get_key, seq, facts.encoding, km[m], f)
               for m in keysengine.MODES for f in (False, True)}
        judge_node(ctx, facts, seq, res)
    elif kind == "stream":
        stream_case(ctx, facts, case, case["data"], case.get("chunks"), case.get("expect"))
    elif kind == "interrupted-decode":
        interrupted_decode(ctx)
    elif kind == "e2e":
        from . import c03_e2e
        c03_e2e.run_case(ctx, case)


def scalars(ctx, quick):
    if quick:
        pts = set()
        for b in (0, 0x7F, 0x80, 0xFF, 0x100, 0x7FF, 0x800, 0xFFF, 0x1000, 0xD7FF, 0xE000, 0xFFFD,
                  0xFFFF, 0x10000, 0x1FFFF, 0x10FFFF, 0x4E00, 0x1F600, 0x3000):
            for d in range(-3, 4):
                pts.add(b + d)
        for _ in range(25000):
            pts.add(ctx.rng.randrange(0x110000))
        return sorted(p for p in pts if 0 <= p <= 0x10FFFF and not 0xD800 <= p <= 0xDFFF)
    return [p for p in range(0x110000) if not 0xD800 <= p <= 0xDFFF]


def units_for(facts, rng):
    tabs = sorted(facts.table - facts.meta)
    r = rng.random()
    if r < .5:
        return rng.choice(tabs)
    ch = chr(rng.choice([rng.randrange(0x20, 0x7F), rng.randrange(0xA0, 0x100), rng.randrange(0x100, 0x3000),
                         rng.randrange(0x4E00, 0x9FFF), rng.randrange(0x10000, 0x10FFFF)]))
    try:
        return ch.encode(facts.encoding)
    except UnicodeEncodeError:
        return rng.choice(tabs)


def interrupted_decode(ctx):
    """Fault enumeration: a KeyboardInterrupt lands at every statement of a decode in
    progress (forked children, so decoder state that is built or cached lazily is in its
    pristine state each time); decoding must be unaffected afterwards."""
    from .. import inject
    from curtsies import events
    enc = "utf-8"
    facts = Facts(enc)
    action_stream = "一\x1b[Aé😀a\x1b[1;5C".encode(enc)
    probes = [chr(c).encode(enc) for c in (0x61, 0xE9, 0x416, 0x4E00, 0x20AC, 0x1F600, 0x10FFFF, 0x7FF, 0x800, 0xFFFF, 0x10000)]
    probes += [b"\x1b[A", b"\x1b[1;5C", b"\x1bOP", b"\x1b", b"\x7f", "é一".encode(enc) + b"\x1b[B" + "😀".encode(enc)]

    def action():
        drive(events.get_key, [action_stream], enc, events.Keynames.CURTSIES)

    def probe():
        bad = []
        for data in probes:
            for mode, km in keysengine.modes().items():
                try:
                    keys = drive(events.get_key, [data], enc, km)
                except Exception as ex:  # noqa
                    bad.append([data.hex(), mode, repr(ex)])
                    continue
                if mode == "bytes" and b"".join(keys) != data:
                    bad.append([data.hex(), mode, [k.hex() for k in keys]])
                if mode == "curtsies" and facts.C_full(data) and data not in facts.table and keys != [data.decode(enc)]:
                    bad.append([data.hex(), mode, keys])
        return bad
    n, results = inject.fork_crash_points(action, probe, ctx.mine)
    if ctx.shard[0] == 0:
        ctx.notes["decode_statements_enumerated_as_crash_points"] = n
    for res in results:
        if res.get("error"):
            ctx.inconclusive_because("interrupted-decode child error: %s" % res["error"])
            continue
        if res["k"] == 0:
            if res["bad"]:
                ctx.inconclusive_because("decode probe fails without interruption: %r" % (res["bad"][:1],))
            continue
        case = {"kind": "interrupted-decode", "encoding": enc, "statement": res["k"], "where": res.get("where")}
        ctx.judge(not res["bad"], case, ("C03", "interrupted", res["k"]), "C03:decoder-state-damaged-by-interrupt",
                  "probe streams decoded as before", res["bad"][:3], {"fired": res["fired"]}, nontrivial=res["fired"])
        ctx.count("interrupted_decode_crash_points")


def run(ctx):
    rng = ctx.rng
    quick = ctx.quick
    interrupted_decode(ctx)
    encs = ENCODINGS + (ALIASES if not quick else ("ANSI_X3.4-1968", "UTF8", "latin1"))
    for ei, enc in enumerate(encs):
        facts = Facts(enc)
        alias = enc in ALIASES
        next_bytes = range(256) if not (alias and quick) else sorted(rng.sample(range(256), 12) + [0x1b, 0x41, 0x80, 0xc3, 0xe2, 0xff])
        # (1) decision tree - whole tree handled by one shard per encoding
        if ctx.mine(ei) and (not alias or not quick or enc in ("ANSI_X3.4-1968", "UTF8")):
            n = keysengine.explore(enc, rng, lambda s, r: judge_node(ctx, facts, s, r),
                                   exhaustive=False)
            ctx.notes["tree_nodes_%s" % enc] = n
            ctx.count("tree_nodes", n)
        tabs = sorted(facts.table)
        n = 0
        # (2a) every table sequence alone and followed by every byte
        for T in tabs:
            longer = facts.T_prefix(T) or facts.C_prefix(T)
            n += 1
            if ctx.mine(n):
                stream_case(ctx, facts, {"kind": "stream", "encoding": enc, "data": T, "expect": [T]},
                            T, expect=[T])
            for b in next_bytes:
                n += 1
                if not ctx.mine(n):
                    continue
                bb = bytes([b])
                data = T + bb
                expect = None
                if not longer and not (T in facts.meta):
                    # T must come out alone; the following single byte is a unit of its own
                    if facts.unit(bb, last=True):
                        expect = [T, bb]
                if facts.valid_f(data):
                    stream_case(ctx, facts, {"kind": "stream", "encoding": enc, "data": data,
                                             "expect": expect}, data, expect=expect)
                    ctx.count("table_then_byte")
        # (2b) ordered pairs of table sequences
        multi = [t for t in tabs if t not in facts.meta]
        pairs = list(itertools.product(multi, multi))
        if quick:
            pairs = rng.sample(pairs, 2500 if not alias else 300)
        elif alias:
            pairs = rng.sample(pairs, 5000)
        for T1, T2 in pairs:
            n += 1
            if not ctx.mine(n):
                continue
            expect = [T1, T2] if not (facts.T_prefix(T1) or facts.C_prefix(T1)) else None
            data = T1 + T2
            stream_case(ctx, facts, {"kind": "stream", "encoding": enc, "data": data, "expect": expect},
                        data, expect=expect)
            ctx.count("table_pairs")
        # (2c) Unicode scalar values
        for cp in (scalars(ctx, quick) if not alias else scalars(ctx, True)[::7]):
            n += 1
            if not ctx.mine(n):
                continue
            try:
                B = chr(cp).encode(enc)
            except UnicodeEncodeError:
                continue
            stream_case(ctx, facts, {"kind": "stream", "encoding": enc, "data": B, "expect": [B]}, B,
                        expect=[B])
            ctx.count("scalars")
        # (2d) random concatenations of units under random read chunking
        for _ in range(ctx.share(1500 if quick else 60000)):
            units = [units_for(facts, rng) for _ in range(rng.randint(1, 6))]
            data = b"".join(units)
            # cut reads only at unit boundaries (a unit arrives whole)
            chunks, cur = [], b""
            for u in units:
                cur += u
                if rng.random() < .4:
                    chunks.append(cur)
                    cur = b""
            if cur:
                chunks.append(cur)
            stream_case(ctx, facts, {"kind": "stream", "encoding": enc, "data": data, "chunks": chunks},
                        data, chunks=chunks)
            ctx.count("random_streams")
    ctx.exhaustive = True
    ctx.notes["exhaustive_part"] = ("decision trees of ascii and latin-1 complete; utf-8: ESC subtree and two "
                                    "levels below every lead byte complete, deeper invalid continuations sampled")
    # (3) end to end through Input over a pty
    from . import c03_e2e
    c03_e2e.run(ctx)
