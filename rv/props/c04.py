"""C04 - FSArray region assignment composites exactly the assigned block."""
import itertools

from .. import obs
from ..model import fsgrid
from ..model.fsgrid import BLANK, OK, ERROR, DONTCARE, NOOP

LEVEL = "exploration"
SUITE_MONITOR = True      # also judge the repository's own tests/doctests through rv/monitors.py
RULE = ("Histories of 1-6 region assignments on FSArrays of shapes 0-4 x 0-5 (constructor "
        "formatting arguments included): forms a[r0:r1, c0:c1], a[r0:r1], a[r, c0:c1], "
        "a[r0:r1, c], a[r, c]; blocks given as lists of str / FmtStr or as FSArray, row lengths "
        "from {0, w-1, w, w+1, random}, wrong row counts, regions inside, straddling and beyond "
        "the height. A cell-grid model is stepped alongside: after every assignment every "
        "displayed cell, every row's stored length (<= width), the height and random region "
        "read-backs are compared; must-raise assignments must raise and leave every displayed "
        "cell unchanged. fsarray(strings, width) is checked against the strings' cells. Thorough "
        "adds every (r0, r1, c0, c1) x row-length class on pre-filled 3x3 arrays. distinct = "
        "distinct (pre-state, assignment); non-trivial = region with non-zero area.")
FLOOR = 1000
SHARDS = {"thorough": 16}
ASSUMPTIONS = ["a row longer than the region that lands only on never-written cells is don't-care "
               "(counted, model re-synchronised from the real array)",
               "for a region of zero area only 'no displayed cell changes' is judged",
               "non-negative indices; raw row replacement a[r] = row is not generated"]

STATE = {"inv_installed": False, "inv_evals": 0, "inv_bad": []}


def rows_fit(self):
    STATE["inv_evals"] += 1
    rows = self.__dict__.get("rows")
    nc = self.__dict__.get("num_columns")
    if rows is None or nc is None:
        return True
    for r in rows:
        if len(r) > nc:
            if len(STATE["inv_bad"]) < 10:
                STATE["inv_bad"].append([len(r), nc])
            break
    return True


def install_invariant():
    if STATE["inv_installed"]:
        return
    import icontract
    from curtsies import formatstringarray

    class RowTooWide(Exception):
        pass
    icontract.invariant(rows_fit, error=RowTooWide)(formatstringarray.FSArray)
    STATE["inv_installed"] = True


def row_value(r):
    """block row description -> real value, cells.  r is a str (plain) or a spec list."""
    if isinstance(r, str):
        return r, obs.observe(r)
    return obs.build(r), obs.spec_cells(r)


def read_display(a):
    """displayed grid of the real array through the public API (len, a[r])."""
    W = a.width
    out, stored = [], []
    for r in range(len(a)):
        cs = obs.cells(a[r])
        stored.append(len(cs))
        out.append(cs + [BLANK] * (W - len(cs)))
    return out, stored


def classify(step, pre_rows):
    return "C04:assign"


class TooLong(Exception):
    """the assignment ran for over a second (an array of a few rows and columns)"""


def _alarm(signum, frame):
    raise TooLong("assignment still running after 1 s")


def do_assign(a, st, block):
    import signal
    old = signal.signal(signal.SIGALRM, _alarm)
    signal.setitimer(signal.ITIMER_REAL, 0.3 if st.get("rows_as") else 20.0)
    try:
        _do_assign(a, st, block)
    except TooLong:
        STATE["too_long"] = STATE.get("too_long", 0) + 1
        raise
    finally:
        signal.setitimer(signal.ITIMER_REAL, 0)
        signal.signal(signal.SIGALRM, old)


def _do_assign(a, st, block):
    form = st["form"]
    r0, r1, c0, c1 = st["r0"], st["r1"], st["c0"], st["c1"]
    # the same rows spelled with omitted or negative bounds (resolved against the current height,
    # as for str and list); the generator only asks for a spelling that names the same region
    H = len(a)
    how = st.get("rows_as")
    if STATE.get("too_long", 0) >= 12 and not st.get("witness"):
        how = None        # a dozen assignments that never finished are evidence enough for one run
    if how == "open_stop" and r1 == H:
        r1 = None
    elif how == "open_start" and r0 == 0:
        r0 = None
    elif how == "open_both" and r0 == 0 and r1 == H:
        r0 = r1 = None
    elif how == "neg" and 0 <= r0 < H and r1 <= H:
        r0 = r0 - H
        r1 = None if r1 == H else r1 - H
    elif how == "neg_start" and 0 <= r0 < H < r1:
        r0 = r0 - H          # counted from the current last row; the explicit stop reaches past it
    if form == "slice2d":
        a[r0:r1, c0:c1] = block
    elif form == "rowslice":
        a[r0:r1] = block
    elif form == "introw":
        a[r0, c0:c1] = block
    elif form == "intcol":
        a[r0:r1, c0] = block
    elif form == "int2d":
        a[r0, c0] = block
    else:
        raise ValueError(form)


def run_case(ctx, case):
    install_invariant()
    try:
        _run_case(ctx, case)
    except obs.ObservationFailed as ex:
        ctx.judge(False, case, mech="C04:incoherent-result", got=str(ex))


def _run_case(ctx, case):
    from curtsies.formatstringarray import FSArray, fsarray
    if case.get("kind") == "fsarray":
        return fsarray_case(ctx, case)
    h, w = case["shape"]
    a = FSArray(h, w, *case.get("ctor_args", []), **case.get("ctor_kwargs", {}))
    g = fsgrid.Grid(h, w)
    for k, st in enumerate(case["steps"]):
        rows_desc = st["block"]
        vals, cells = [], []
        for r in rows_desc:
            v, c = row_value(r)
            vals.append(v)
            cells.append(c)
        if st.get("as_fsarray"):
            try:
                block = fsarray(vals)
            except Exception:
                block = vals
        else:
            block = vals
        r0, r1, c0, c1 = st["r0"], st["r1"], st["c0"], st["c1"]
        before, _ = read_display(a)
        outcome = g.assign(r0, r1, c0, c1, cells)
        sig = ("C04", tuple(map(tuple, (tuple(x) for x in before))) if False else None)
        sig = ("C04", repr(before), st["form"], r0, r1, c0, c1, repr(rows_desc), bool(st.get("as_fsarray")))
        nontrivial = outcome != NOOP
        raised = None
        try:
            do_assign(a, st, block)
        except Exception as ex:  # noqa
            raised = ex
        after, stored = read_display(a)
        want = g.display()
        detail = {"step": k, "outcome_expected": outcome, "raised": repr(raised)[:120] if raised else None}
        ctx.count("outcome:" + outcome)
        mech = "C04:open-or-negative-row-bounds" if st.get("rows_as") else "C04:assign"
        if outcome == ERROR:
            mech = "C04:must-raise"
            ok = raised is not None and after == want
            ctx.judge(ok, case, sig, mech, _show(want), _show(after), detail, nontrivial)
        elif outcome == DONTCARE:
            # statement silent: resynchronise the model with whatever the array did
            ctx.seen(sig, False)
            ctx.count("dontcare_long_row_on_unwritten_cells")
            for r in range(len(a)):
                if r < len(g.rows):
                    g.rows[r] = after[r][:stored[r]]
            while len(g.rows) < len(a):
                g.rows.append(after[len(g.rows)][:stored[len(g.rows)]])
            continue
        elif outcome == NOOP:
            ok = after == want
            ctx.judge(ok, case, sig, "C04:empty-region", _show(want), _show(after), detail, False)
        else:
            if not st.get("rows_as") and not any(c for c in cells) and any(len(x) for x in before[r0:r1]):
                mech = "C04:empty-row-keeps-old-content" if all(len(c) == 0 for c in cells) else mech
            ok = raised is None and after == want
            ctx.judge(ok, case, sig, mech, _show(want), _show(after), detail, nontrivial)
        if not ok:
            return
        if st.get("poke_block") and isinstance(block, list) and raised is None:
            # the caller goes on using (and editing) the list it passed: the array must have
            # taken the cells, not the list
            from curtsies.formatstring import fmtstr as _f
            block.append(_f("ZZ", "red"))
            if len(block) > 1:
                block[0] = _f("q" * max(1, w), "on_blue")
            again, _ = read_display(a)
            if again != want or len(a) != len(want):
                ctx.judge(False, case, sig + ("poke",), "C04:array-aliases-callers-block", _show(want), _show(again),
                          {"step": k})
                return
        # stored length never exceeds the width
        if any(s > w for s in stored):
            ctx.judge(False, case, mech="C04:row-wider-than-array", expected=w, got=stored)
            return
        # read-back of a random region
        rr = ctx.rng
        H = len(a)
        if H and w:
            x0 = rr.randint(0, H - 1); x1 = rr.randint(x0, H)
            y0 = rr.randint(0, w - 1); y1 = rr.randint(y0, w)
            try:
                got = [obs.cells(p) for p in a[x0:x1, y0:y1]]
                got = [p + [BLANK] * ((y1 - y0) - len(p)) for p in got]
                wantr = g.region(x0, x1, y0, y1)
                ctx.judge(got == wantr, case, ("C04", "read", repr(want), x0, x1, y0, y1),
                          "C04:read-back", _show(wantr), _show(got), [x0, x1, y0, y1])
                # the same columns named from the right edge or with a bound left out (columns
                # count across the array's width, whatever length the rows are stored at)
                c0 = rr.choice([y0] + ([y0 - w] if 0 < y0 < w else []) + ([None] if y0 == 0 else []))
                c1 = rr.choice([y1] + ([y1 - w] if y1 < w else []) + ([None] if y1 == w else []))
                if (c0, c1) != (y0, y1):
                    got = [obs.cells(p) for p in a[x0:x1, c0:c1]]
                    got = [p + [BLANK] * ((y1 - y0) - len(p)) for p in got]
                    ctx.judge(got == wantr, case, ("C04", "read", repr(want), x0, x1, c0, c1),
                              "C04:read-back-columns-named-otherwise", _show(wantr), _show(got), [x0, x1, c0, c1])
                    ctx.count("reads_with_negative_or_open_column_bounds")
            except obs.ObservationFailed:
                raise
            except Exception as ex:  # noqa
                ctx.judge(False, case, mech="C04:read-back", got=repr(ex), detail=[x0, x1, y0, y1])
        if H:
            # a row named from the end reads back like the same row named from the start
            k = rr.randint(1, H)
            try:
                got = obs.cells(a[-k])
                ref = obs.cells(a[H - k])
                ctx.judge(got == ref, case, ("C04", "negrow", repr(want), k), "C04:negative-row-read",
                          obs.show(ref), obs.show(got), [-k])
            except obs.ObservationFailed:
                raise
            except Exception as ex:  # noqa
                ctx.judge(False, case, mech="C04:negative-row-read", got=repr(ex), detail=[-k, H])
    if STATE["inv_bad"]:
        ctx.judge(False, case, mech="C04:row-wider-than-array", got=STATE["inv_bad"][:3])
        del STATE["inv_bad"][:]


def fsarray_case(ctx, case):
    from curtsies.formatstringarray import fsarray
    rows_desc, width = case["rows"], case["width"]
    vals, cells = zip(*[row_value(r) for r in rows_desc]) if rows_desc else ((), ())
    kwargs = case.get("kwargs", {})
    must_raise = width is not None and any(len(c) > width for c in cells)
    W = width if width is not None else max([len(c) for c in cells] or [0])
    want = []
    for r, c in zip(rows_desc, cells):
        if isinstance(r, str) and kwargs:
            c = obs.spec_cells([[r, kwargs]])
        want.append(list(c) + [BLANK] * (W - len(c)))
    try:
        a = fsarray(list(vals), width, **kwargs) if width is not None else fsarray(list(vals), **kwargs)
    except ValueError as ex:
        ctx.judge(must_raise, case, mech="C04:fsarray", expected="array", got=repr(ex))
        return
    except Exception as ex:  # noqa
        ctx.judge(False, case, mech="C04:fsarray", got=repr(ex))
        return
    if must_raise:
        ctx.judge(False, case, mech="C04:fsarray", expected="ValueError (row longer than width)",
                  got="no exception")
        return
    got, stored = read_display(a)
    ok = got == want and a.width == W and len(a) == len(rows_desc) and all(s <= W for s in stored)
    ctx.judge(ok, case, mech="C04:fsarray", expected=_show(want), got=_show(got))


def _show(grid):
    return [obs.show(r) for r in grid]


def rand_row(rng, length, kinds="both"):
    if length <= 0:
        return rng.choice(["", [["", {"fg": 31}]], []]) if kinds == "both" else ""
    if rng.random() < .4:
        return "".join(rng.choice("xyz") for _ in range(length))
    spec, left = [], length
    while left > 0:
        k = rng.randint(1, left)
        spec.append(["".join(rng.choice("abc") for _ in range(k)), dict(rng.choice(obs.PALETTE))])
        left -= k
    if rng.random() < .2:
        spec.insert(rng.randint(0, len(spec)), ["", {"bg": 43}])
    return spec


def rand_step(rng, H, W):
    form = rng.choice(["slice2d"] * 5 + ["rowslice", "introw", "intcol", "int2d"])
    if W == 0 and form in ("intcol", "int2d"):
        form = "slice2d"          # a zero-width array has no column an integer could name
    r0 = rng.randint(0, H + 1)
    r1 = r0 + rng.choice([0, 1, 1, 1, 1, 2, 2, 3])
    c0 = rng.randint(0, max(0, W - 1)) if rng.random() < .85 else W
    c1 = rng.randint(min(c0 + 1, W), W) if rng.random() < .9 else c0
    if rng.random() < .05:
        c1 += 1
    if form == "rowslice":
        c0, c1 = 0, W
    if form in ("introw", "int2d"):
        r1 = r0 + 1
    if form in ("intcol", "int2d"):
        c0 = min(c0, max(W - 1, 0))
        c1 = c0 + 1
    nrows = r1 - r0
    if rng.random() < .08:
        nrows = max(0, nrows + rng.choice([-1, 1]))
    w = c1 - c0
    block = []
    for _ in range(nrows):
        L = rng.choice([0, w - 1, w, w, w, w + 1, rng.randint(0, W + 1)])
        block.append(rand_row(rng, max(0, L)))
    whole = rng.random() < .12
    if whole and H and W:
        # a block that covers exactly the whole array
        form, r0, r1, c0, c1 = "slice2d", 0, H, 0, W
        block = [rand_row(rng, W) for _ in range(H)]
    st = {"form": form, "r0": r0, "r1": r1, "c0": c0, "c1": c1, "block": block,
          "as_fsarray": rng.random() < .15 and not whole, "poke_block": rng.random() < .4}
    if rng.random() < .3 and r0 < H < r1 and form not in ("introw", "int2d"):
        st["rows_as"] = "neg_start"
    elif rng.random() < .12 and r1 <= H and r0 < r1:
        # rows named with omitted / negative bounds; only where that names the same rows
        ways = ["neg"] if r0 < H else []
        if form not in ("introw", "int2d"):
            if r1 == H:
                ways.append("open_stop")
            if r0 == 0:
                ways.append("open_start")
            if r0 == 0 and r1 == H:
                ways.append("open_both")
        if ways:
            st["rows_as"] = rng.choice(ways)
    return st


def run(ctx):
    install_invariant()
    rng = ctx.rng
    for _ in range(ctx.share(6000 if ctx.quick else 800000)):
        h, w = rng.randint(0, 4), rng.randint(0, 5)
        kw = rng.choice([{}, {}, {"bg": "blue"}, {"fg": "red", "bold": True}])
        ctor_args = rng.choice([[], [], [], ["blue"], ["on_red", "bold"], ["green", "on_blue"]]) if not kw else []
        steps = []
        H = h
        for _ in range(rng.randint(1, 6)):
            st = rand_step(rng, H, w)
            H = max(H, st["r1"])
            steps.append(st)
        run_case(ctx, {"shape": [h, w], "ctor_kwargs": kw, "ctor_args": ctor_args, "steps": steps})
        ctx.count("histories")
    recent_texts = ["ab", "status"]
    for _ in range(ctx.share(800 if ctx.quick else 150000)):
        rows = [rand_row(rng, rng.randint(0, 5), kinds="both") for _ in range(rng.randint(0, 4))]
        # the same text now and then as a plain str and as a FmtStr (styled or not), within one
        # call and across calls
        for _ in range(rng.randint(0, 2)):
            t = rng.choice(recent_texts)
            rows.insert(rng.randint(0, len(rows)), rng.choice([t, [[t, {}]], [[t, dict(rng.choice(obs.PALETTE))]]]))
        for r in rows:
            if isinstance(r, str) and r and len(recent_texts) < 12:
                recent_texts.append(r)
        width = rng.choice([None, None, rng.randint(0, 6)])
        kw = rng.choice([{}, {}, {"bg": 44}, {"fg": 31, "underline": True}])
        run_case(ctx, {"kind": "fsarray", "rows": rows, "width": width, "kwargs": kw})
        ctx.count("fsarray_calls")
    if not ctx.quick:
        # every region x row-length class on pre-filled 3x3 arrays
        prefills = [
            [],
            [{"form": "slice2d", "r0": 0, "r1": 3, "c0": 0, "c1": 3,
              "block": [[["abc", {"fg": 31}]], [["de", {"bg": 44}], ["f", {}]], "ghi"]}],
            [{"form": "slice2d", "r0": 0, "r1": 3, "c0": 0, "c1": 2, "block": ["ab", [["d", {"bold": True}]], ""]}],
            [{"form": "slice2d", "r0": 1, "r1": 2, "c0": 1, "c1": 3, "block": [[["xy", {"fg": 32}]]]}],
        ]
        n = 0
        for pre in prefills:
            for r0, c0 in itertools.product(range(0, 5), range(0, 4)):
                for r1, c1 in itertools.product(range(r0, 5), range(c0, 5)):
                    w = c1 - c0
                    for L in sorted({0, max(0, w - 1), w, w + 1}):
                        for delta in (0, 1):
                            n += 1
                            if not ctx.mine(n):
                                continue
                            block = [[["PQRST"[:L], {"fg": 35, "underline": True}]] if L else ""
                                     for _ in range(max(0, r1 - r0 + (1 if delta and L == w else 0)))]
                            st = {"form": "slice2d", "r0": r0, "r1": r1, "c0": c0, "c1": c1, "block": block}
                            run_case(ctx, {"shape": [3, 3], "steps": pre + [st]})
                            ctx.count("enumerated_regions")
        ctx.exhaustive = True
    ctx.notes["row_width_invariant_evaluations"] = STATE["inv_evals"]
    if STATE["inv_evals"] == 0:
        ctx.inconclusive_because("FSArray row-width invariant never evaluated")
