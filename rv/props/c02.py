"""C02 - FullscreenWindow: after every render the screen equals the array."""
import random

from .. import obs, plumbing
from ..model import term as tm

LEVEL = "exploration"
RULE = ("Histories of renders interleaved with terminal resizes on a real FullscreenWindow whose "
        "out_stream is recorded at the API boundary and interpreted by the reference terminal "
        "(xterm pending-wrap semantics, alternate screen). Terminal sizes 1-6 x 1-8; per render "
        "the array height is drawn from {0, 1, H-1, H, H+1, H+3, random}, row lengths from {0, 1, "
        "W-1, W, W+1, W+4, random}, plus 'same text, other colour as the previous render', rows as "
        "FSArray / list of FmtStr / list of str / mixed; a resize sets a different size with "
        "TIOCSWINSZ and overwrites the model screen with random junk (characters, colours, cursor "
        "anywhere). After EVERY render all rows x cols cells must equal the array's top-left part "
        "that fits (blank and unformatted elsewhere), the cursor must sit at cursor_pos and the "
        "model must have seen no scroll. distinct = distinct (size, previous screen, array, "
        "cursor) render steps; non-trivial = the array has at least one character.")
FLOOR = 500
SHARDS = {"thorough": 16}
ASSUMPTIONS = ["rv/model/term.py implements xterm semantics for the sequences blessed emits under xterm-256color; "
               "a history with a sequence the model does not know is inconclusive",
               "single-column characters only; cursor_pos inside the screen; no resize back to the size last rendered at"]


def row_value(r):
    if isinstance(r, str):
        return r, obs.observe(r)
    return obs.build(r), obs.spec_cells(r)


def expected_screen(cell_rows, rows, cols):
    out = []
    for y in range(rows):
        cs = cell_rows[y][:cols] if y < len(cell_rows) else []
        out.append(list(cs) + [tm.BLANK] * (cols - len(cs)))
    return out


def show_screen(scr):
    return [obs.show(r) for r in scr]


def classify(step_array_cells, rows, cols):
    if len(step_array_cells) > rows:
        return "C02:array-taller-than-terminal"
    if any(len(r) > cols for r in step_array_cells):
        return "C02:row-longer-than-terminal"
    return "C02:render"


def fmtstr_(x):
    from curtsies.formatstring import fmtstr
    return fmtstr(x)


def run_case(ctx, case):
    from curtsies import FullscreenWindow
    from curtsies.formatstringarray import fsarray
    rows, cols = case["rows"], case["cols"]
    term = tm.Term(rows, cols)
    # the main screen holds earlier output that must survive (checked by C12; here only used
    # to make sure renders go to the alternate screen)
    term.feed("earlier\r\noutput")
    out = plumbing.TeeOut(rows, cols, sink=term.feed)
    try:
        w = FullscreenWindow(out, hide_cursor=case["hide_cursor"])
        with w:
            scrolls0 = term.scrolls
            prev_sig = "fresh"
            prev_obj = None
            for k, st in enumerate(case["steps"]):
                if st["op"] == "resize":
                    rows, cols = st["rows"], st["cols"]
                    out.set_size(rows, cols)
                    term.resize(rows, cols)
                    term.junk(random.Random(st["junk_seed"]))
                    prev_sig = "junk%d" % st["junk_seed"]
                    continue
                vals, cells = [], []
                for r in st["array"]:
                    v, c = row_value(r)
                    vals.append(v)
                    cells.append(c)
                arr = vals
                if st.get("as") == "fsarray":
                    try:
                        arr = fsarray(vals)
                    except Exception:
                        arr = vals
                    if st.get("row_replaced") is not None and not isinstance(arr, list) and len(vals) > 1:
                        # the application built the FSArray from shorter rows and then put a row in
                        # place with a[i] = row (the FSArray keeps its declared width)
                        i = st["row_replaced"] % len(vals)
                        keep = min(len(v) for j, v in enumerate(vals) if j != i)
                        try:
                            arr = fsarray([v[:keep] for v in vals])
                            arr[i] = vals[i] if not isinstance(vals[i], str) else fmtstr_(vals[i])
                            for j in range(len(vals)):
                                if j != i and len(vals[j]) > keep:
                                    cells[j] = cells[j][:keep]
                        except Exception:
                            arr = vals
                if st.get("inplace") and prev_obj is not None:
                    # the application keeps ONE frame object, edits it in place and renders it again
                    if isinstance(prev_obj, list) and isinstance(arr, list):
                        prev_obj[:] = arr
                        arr = prev_obj
                    elif not isinstance(prev_obj, list) and not isinstance(arr, list) and \
                            arr.width == prev_obj.width and len(arr) == len(prev_obj) and arr.width and \
                            all(len(r_) <= arr.width for r_ in arr.rows) and all(len(r_) <= arr.width for r_ in prev_obj.rows):
                        prev_obj[0:len(arr), 0:arr.width] = [r + " " * (arr.width - len(r)) if len(r) < arr.width else r
                                                             for r in arr.rows]
                        arr = prev_obj
                        # what the frame object now holds (FSArray compositing itself is C04's subject)
                        cells = [obs.cells(r) for r in arr.rows]
                prev_obj = arr
                cp = tuple(st["cursor"])
                sig = ("C02", rows, cols, prev_sig, repr(st["array"]), cp, case["hide_cursor"])
                mech = classify(cells, rows, cols)
                nontrivial = any(cells)
                try:
                    w.render_to_terminal(arr, cp)
                except Exception as ex:  # noqa
                    ctx.judge(False, case, sig, mech, "render", repr(ex), {"step": k}, nontrivial)
                    return
                if term.unknown:
                    ctx.inconclusive_because("reference terminal met a sequence it does not model: %r" % (term.unknown[:3],))
                    return
                want = expected_screen(cells, rows, cols)
                problems = []
                if not term.in_alt:
                    problems.append("not on the alternate screen")
                if term.screen != want:
                    problems.append("screen differs")
                if (term.y, term.x) != cp:
                    problems.append("cursor at %r, wanted %r" % ((term.y, term.x), cp))
                if term.scrolls != scrolls0:
                    problems.append("%d scroll(s)" % (term.scrolls - scrolls0))
                ctx.judge(not problems, case, sig, mech, show_screen(want), show_screen(term.screen),
                          {"step": k, "problems": problems, "size": [rows, cols]}, nontrivial)
                if problems:
                    return
                prev_sig = repr(st["array"])
                nxt = case["steps"][k + 1] if k + 1 < len(case["steps"]) else None
                if not (nxt and nxt.get("inplace")):
                    # the application drops the frame it has drawn before it builds the next one
                    # (CPython hands the freed rows' addresses to the new ones)
                    prev_obj = arr = vals = v = None
    finally:
        out.close()


def gen_row(rng, L, prev_text=None):
    if prev_text is not None:
        return [[prev_text, dict(rng.choice(obs.PALETTE))]] if prev_text else ""
    if L <= 0:
        return rng.choice(["", [["", {"fg": 31}]]])
    if rng.random() < .25:
        return "".join(rng.choice("ab \xa0" if rng.random() < .2 else "ab ") for _ in range(L))
    spec, left = [], L
    while left > 0:
        k = rng.randint(1, min(left, 3))
        spec.append(["".join(rng.choice("abc \u2003\xa0" if rng.random() < .15 else "abc ") for _ in range(k)), dict(rng.choice(obs.PALETTE))])
        left -= k
    return spec


def shifted(rng, row):
    """the same text and the same sequence of formats with one run boundary moved by a character
    (a highlight or block cursor moving over unchanged text)"""
    if not isinstance(row, list) or len(row) < 2:
        return None
    i = rng.randrange(len(row) - 1)
    a, b = row[i], row[i + 1]
    if a[1] == b[1]:
        return None
    if len(a[0]) > 1 and rng.random() < .5:
        new = [[a[0][:-1], a[1]], [a[0][-1] + b[0], b[1]]]
    elif len(b[0]) > 1:
        new = [[a[0] + b[0][0], a[1]], [b[0][1:], b[1]]]
    else:
        return None
    return row[:i] + new + row[i + 2:]


def text_of_row(r):
    return r if isinstance(r, str) else "".join(t for t, _ in r)


def gen_history(rng, sizes, steps, start=None):
    rows, cols = start or rng.choice(sizes)
    case = {"rows": rows, "cols": cols, "hide_cursor": rng.random() < .5, "steps": []}
    prev = None
    last_rendered = None
    for _ in range(steps):
        if rng.random() < .25:
            cand = [s for s in sizes if s != (rows, cols) and s != last_rendered]
            rows, cols = rng.choice(cand)
            case["steps"].append({"op": "resize", "rows": rows, "cols": cols,
                                  "junk_seed": rng.randrange(10 ** 6)})
            # rows of the frame drawn before the resize may well be drawn again after it
            if prev is not None and rng.random() < .5:
                prev = None
            continue
        h = max(0, rng.choice([0, 1, rows - 1, rows, rows, rows + 1, rows + 3, rng.randint(0, rows + 2)]))
        arr = []
        for i in range(h):
            if prev and i < len(prev) and rng.random() < .3:
                arr.append(gen_row(rng, 0, prev_text=text_of_row(prev[i])))
                continue
            if prev and i < len(prev) and rng.random() < .15:
                arr.append(prev[i])            # unchanged row: the cache path
                continue
            if prev and i < len(prev) and rng.random() < .15:
                sh = shifted(rng, prev[i])
                if sh is not None:
                    arr.append(sh)
                    continue
            L = max(0, rng.choice([0, 1, cols - 1, cols, cols, cols + 1, cols + 4, rng.randint(0, cols + 1)]))
            arr.append(gen_row(rng, L))
        step = {"op": "render", "array": arr, "as": rng.choice(["list", "list", "fsarray"]),
                "cursor": [rng.randrange(rows), rng.randrange(cols)]}
        if step["as"] == "fsarray" and rng.random() < .3:
            step["row_replaced"] = rng.randrange(8)
        last = next((s_ for s_ in reversed(case["steps"]) if s_["op"] == "render"), None)
        if last is not None and case["steps"][-1]["op"] == "render" and rng.random() < .3:
            step["inplace"] = True
            step["as"] = last["as"]
            if rng.random() < .7:
                step["cursor"] = list(last["cursor"])
        case["steps"].append(step)
        prev = arr
        last_rendered = (rows, cols)
    return case


SIZES = [(r, c) for r in range(1, 7) for c in range(1, 9)]


def run(ctx):
    rng = ctx.rng
    if ctx.quick:
        for _ in range(ctx.share(2500)):
            run_case(ctx, gen_history(rng, SIZES, 8))
            ctx.count("histories")
    else:
        n = 0
        for size in SIZES:
            for _ in range(5000):
                n += 1
                if not ctx.mine(n):
                    continue
                # start at every size
                run_case(ctx, gen_history(rng, SIZES, 10, start=size))
                ctx.count("histories")
    ctx.notes["sizes_visited"] = len(SIZES)


