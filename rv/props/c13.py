"""C13 - FmtStr values are immutable and their memoised views never go stale."""
import itertools

from .. import obs
from ..core import HarnessError

LEVEL = "exploration"
SUITE_MONITOR = True      # also judge the repository's own tests/doctests through rv/monitors.py
RULE = ("Seeded straight-line programs (15-40 steps) over a growing pool of FmtStr values; every "
        "step applies one operation of the public set (+, radd with str, *, slice, index, splice, "
        "append, join, split, splitlines, ljust/rjust, copy_with_new_atts, new_with_atts_removed, "
        "copy_with_new_str, width_aware_slice, width_aware_splitlines, linesplit, delegated str "
        "methods, fmtstr() re-wrapping, from_str(str()), copy, FSArray row assignment) to pool "
        "members and adds the results to the pool; observation steps (str, len, .s, .width, repr, "
        "hash) are interleaved at random so caches are filled before and after aliasing. Three "
        "monitors: (1) a snapshot (text, len, width, terminal string, repr, cells - taken on a "
        "fresh copy) of every pool value is re-taken after each step for the operands and at the "
        "end for all values and must never change; (2) an icontract class invariant on FmtStr "
        "(checked around every public method call) requires every filled memo slot to equal the "
        "value recomputed from the runs, and at observation steps the value's own views must "
        "equal those of a fresh copy; (3) in-place edit attempts (item assignment, every mutating "
        "dict method on a run's attributes) must raise and leave the value unchanged. "
        "distinct = distinct (operation, operand snapshots); non-trivial = an operand has a "
        "character.")
FLOOR = 1000
SHARDS = {"quick": 4, "thorough": 16}
ASSUMPTIONS = ["the icontract invariant names the memo slots _unicode/_len/_s/_width; if a refactoring "
               "removes them it reports memo_slots_seen=0 and only the behavioural copy comparison remains"]


class MemoStale(Exception):
    pass


STATE = {"installed": False, "evaluations": 0, "slots_seen": 0, "stale": []}


def memo_fresh(self):
    from curtsies.formatstring import Chunk
    STATE["evaluations"] += 1
    d = self.__dict__
    chunks = d.get("chunks")
    if chunks is None:
        return True
    bad = None
    v = d.get("_s")
    if v is not None:
        STATE["slots_seen"] += 1
        if v != "".join(c.s for c in chunks):
            bad = ("_s", v)
    v = d.get("_len")
    if v is not None:
        STATE["slots_seen"] += 1
        if v != sum(len(c.s) for c in chunks):
            bad = ("_len", v)
    v = d.get("_unicode")
    if v is not None:
        STATE["slots_seen"] += 1
        if v != "".join(str(Chunk(c.s, c.atts)) for c in chunks):
            bad = ("_unicode", v)
    v = d.get("_width")
    if v is not None:
        STATE["slots_seen"] += 1
        try:
            if v != sum(Chunk(c.s, c.atts).width for c in chunks):
                bad = ("_width", v)
        except ValueError:
            pass
    if bad:
        # record and report (do not abort the program that is being observed)
        if len(STATE["stale"]) < 20:
            STATE["stale"].append([bad[0], repr(bad[1])[:80], [[c.s, dict(c.atts)] for c in chunks][:8]])
    return True


def install_invariant():
    if STATE["installed"]:
        return
    import icontract
    from curtsies import formatstring
    icontract.invariant(memo_fresh, error=MemoStale)(formatstring.FmtStr)
    STATE["installed"] = True


def snapshot(x):
    g = x.copy()
    try:
        w = g.width
    except Exception as ex:  # noqa
        w = "raises " + type(ex).__name__
    return (g.s, len(g), w, str(g), repr(g), tuple(obs.cells(g, strict=False)))


def views(x):
    out = []
    for view in (lambda v: v.s, len, lambda v: v.width, str, repr, lambda v: sorted(v.shared_atts.items())):
        try:
            out.append(view(x))
        except Exception as ex:  # noqa  (a view that raises is an observation like any other)
            out.append("raises " + type(ex).__name__)
    return tuple(out)


OPS = ["add", "radd", "addstr", "iadd", "imul", "mul", "slice", "index", "splice", "append", "join", "split",
       "splitlines", "ljust", "rjust", "cwna", "nwar", "cwns", "was", "wasl", "linesplit",
       "deleg", "rewrap", "fromstr", "copy", "fsarray", "setslice", "shared", "observe", "observe", "observe"]

EDITS = ["setitem", "atts_setitem", "atts_update", "atts_pop", "atts_popitem", "atts_clear",
         "atts_setdefault", "atts_delitem", "atts_ior", "run_s", "run_atts", "run_width", "run_color_str"]
INCOMPLETE = {"atts_pop", "atts_popitem", "atts_clear", "atts_setdefault", "atts_delitem", "atts_ior"}


def do_op(rng, op, pool):
    """Execute one operation on the real objects; returns (operands, results)."""
    from curtsies.formatstring import FmtStr, fmtstr, linesplit
    from curtsies.formatstringarray import FSArray, fsarray
    a = rng.choice(pool)
    b = rng.choice(pool)
    L = len(a.copy())
    i, j = sorted((rng.randint(-1, L + 1), rng.randint(-1, L + 1)))
    if op == "shared":
        # the formatting common to all characters, asked for and then edited by the caller (to
        # build the arguments of another call): the caller's dict is the caller's
        d = a.shared_atts
        try:
            d["invert"] = True
            d.pop("bg", None)
            d.pop("fg", None)
            d["bold"] = False
        except Exception:  # noqa  (a read-only mapping is fine too)
            pass
        return [a], []
    if op == "add":
        return [a, b], [a + b]
    if op == "iadd":
        acc = a
        acc += b                    # augmented assignment must rebind, never edit `a` in place
        acc2 = a
        acc2 += "s"
        return [a, b], [acc, acc2]
    if op == "imul":
        acc = a
        acc *= 2
        return [a], [acc]
    if op == "radd":
        return [a], ["xy" + a]
    if op == "addstr":
        return [a], [a + "zw"]
    if op == "mul":
        return [a], [a * rng.choice([-1, 0, 0, 1, 2, 3])]     # str * -1 is '' and so is this
    if op == "slice":
        return [a], [a[i:j], a[max(i, 0):], a[:max(j, 0)]]
    if op == "index":
        return [a], ([a[rng.randrange(L)]] if L else [])
    if op == "splice":
        return [a, b], [a.splice(b, max(i, 0), max(j, 0)), a.splice("Q", max(i, 0)), a.splice("", max(i, 0), max(j, 0))]
    if op == "append":
        return [a, b], [a.append(b), a.append("t")]
    if op == "join":
        items = [rng.choice(pool) if rng.random() < .7 else "s" for _ in range(rng.randint(0, 3))]
        return [a] + [x for x in items if not isinstance(x, str)], [a.join(items)]
    if op == "split":
        return [a], list(a.split(rng.choice([" ", "a", "\n", ","]))) + list(a.split(r"[ab]+", regex=True))
    if op == "splitlines":
        return [a], list(a.splitlines()) + list(a.splitlines(True))
    if op == "ljust":
        return [a], [a.ljust(L + 2), a.ljust(L + 1, "*")] if a.copy().chunks else []
    if op == "rjust":
        return [a], [a.rjust(L + 2), a.rjust(L + 1, "-")] if a.copy().chunks else []
    if op == "cwna":
        return [a], [a.copy_with_new_atts(**rng.choice(obs.PALETTE))]
    if op == "nwar":
        return [a], [a.new_with_atts_removed(*rng.sample(["fg", "bg", "bold", "underline"], 2))]
    if op == "cwns":
        return [a], [a.copy_with_new_str("new")]
    if op == "was":
        try:
            w = a.copy().width
            i, j = sorted((rng.randint(0, w + 1), rng.randint(0, w + 1)))
            return [a], [a.width_aware_slice(slice(i, j))]
        except ValueError:
            return [a], []
    if op == "wasl":
        try:
            return [a], list(a.width_aware_splitlines(rng.randint(2, 5)))
        except ValueError:
            return [a], []
    if op == "linesplit":
        return [a], list(linesplit(a, rng.randint(1, 6)))
    if op == "deleg":
        if not a.copy().chunks:
            return [a], []
        m, args = rng.choice([("upper", ()), ("center", (L + 3,)), ("replace", ("a", "bb")),
                              ("strip", ()), ("title", ()), ("rsplit", ("a",)), ("zfill", (L + 2,))])
        r = getattr(a, m)(*args)
        return [a], (r if isinstance(r, list) else [r])
    if op == "rewrap":
        return [a], [fmtstr(a, **rng.choice(obs.PALETTE)), fmtstr(a)]
    if op == "fromstr":
        return [a], [FmtStr.from_str(str(a))]
    if op == "copy":
        return [a], [a.copy()]
    if op == "fsarray":
        rows = [x for x in (a, b) if "\n" not in x.copy().s]
        if not rows:
            return [a, b], []
        arr = fsarray(rows)
        width = arr.width
        out = list(arr[0:len(rows)])
        if width:
            arr[0:1, 0:width] = [rows[-1].ljust(width)[:width]]
            out += list(arr[0:1, 0:width]) + [arr[0]]
        return rows, out
    if op == "setslice":
        i, j = max(i, 0), max(j, 0)
        return [a, b], [a.setslice_with_length(i, j, b[:j - i], L + 10),
                        ] + ([a.setitem(rng.randrange(L), "i")] if L else [])
    raise HarnessError(op)


def try_edit(rng, kind, x):
    """-> True if the edit attempt raised."""
    chunks = getattr(x, "chunks", None)
    if kind == "setitem":
        try:
            x[0] = "e"
        except Exception:
            return True
        return False
    if not chunks:
        return True
    if kind.startswith("run_"):
        # the attributes of a run itself (runs are shared between values)
        run = rng.choice(chunks)
        try:
            if kind == "run_s":
                run.s = "zz"
            elif kind == "run_atts":
                run.atts = {"fg": 35}
            elif kind == "run_width":
                run.width = 9
            elif kind == "run_color_str":
                run.color_str = "\x1b[35mzz\x1b[39m"
        except Exception:
            return True
        return False
    atts = getattr(rng.choice(chunks), "atts", None)
    if atts is None:
        return True
    try:
        if kind == "atts_setitem":
            atts["fg"] = 35
        elif kind == "atts_update":
            atts.update({"bold": True})
        elif kind == "atts_pop":
            atts.pop("fg", None) if "fg" in atts or not atts else atts.pop(next(iter(atts)))
        elif kind == "atts_popitem":
            if atts:
                atts.popitem()
            else:
                return True
        elif kind == "atts_clear":
            atts.clear()
        elif kind == "atts_setdefault":
            atts.setdefault("invert", True)
        elif kind == "atts_delitem":
            if atts:
                del atts[next(iter(atts))]
            else:
                return True
        elif kind == "atts_ior":
            atts |= {"blink": True}
    except Exception:
        return True
    return False


def run_program(ctx, seed, steps=None, check_edits=True):
    import random
    rng = random.Random(seed)
    case = {"program_seed": seed}
    pool = [obs.build(obs.rand_spec(rng, 3, 3, ["a", "b", " ", ",", "\n", "一", "́"])) for _ in range(4)]
    pool.append(obs.build([["hello world", {"fg": 31, "bold": True}]]))
    # a value one of whose runs holds an already rendered string (f + str(g)): it displays like g
    # but its text IS that string - anything memoised per "equal" value must not mix the two up
    from curtsies.formatstring import fmtstr as _fmtstr
    rendered_src = pool[-1]
    pre = _fmtstr("") + str(rendered_src)
    pre_text = str(rendered_src)
    pool.append(pre)
    snaps = {id(x): snapshot(x) for x in pool}
    trace = []
    nsteps = steps or rng.randint(15, 40)

    def recheck(values, where):
        for x in values:
            if isinstance(x, str):
                continue
            s = snaps.get(id(x))
            if s is None:
                continue
            now = snapshot(x)
            ctx.seen(("C13", "snap", trace[-1][0] if trace else "", s[3]), nontrivial=bool(s[0]))
            if now != s:
                ctx.violation("C13:value-changed", dict(case, trace=trace[-6:], where=where),
                              expected=[s[0], s[3]], got=[now[0], now[3]])
                snaps[id(x)] = now

    for step in range(nsteps):
        op = rng.choice(OPS)
        if op == "observe":
            x = rng.choice(pool)
            v = views(x)
            f = views(x.copy())
            trace.append(("observe", v[0][:20]))
            ctx.seen(("C13", "views", v[3]), nontrivial=bool(v[0]))
            ctx.count("view_observations")
            if v != f:
                ctx.violation("C13:stale-memo", dict(case, trace=trace[-6:]), expected=f, got=v)
            try:
                hash(x)
            except Exception:
                pass
            continue
        try:
            operands, results = do_op(rng, op, pool)
        except HarnessError:
            raise
        except Exception as ex:  # functional failures belong to other properties
            ctx.count("operation_raised:%s:%s" % (op, type(ex).__name__))
            trace.append((op, "raised " + type(ex).__name__))
            recheck(pool[-8:], "after failed " + op)
            continue
        trace.append((op, [o.copy().s[:12] for o in operands if not isinstance(o, str)]))
        ctx.count("operations")
        ctx.count("op:" + op)
        for r in results:
            from curtsies.formatstring import FmtStr
            if isinstance(r, FmtStr) and id(r) not in snaps:
                pool.append(r)
                snaps[id(r)] = snapshot(r)
        recheck(operands, "after " + op)
        if len(pool) > 60:
            # keep the pool bounded but keep every value alive (ids must stay unique)
            pass
    recheck(pool, "end of program")
    try:
        pre_views = [pre.s, len(pre)]
    except Exception as ex:  # noqa
        pre_views = repr(ex)
    if pre_views != [pre_text, len(pre_text)]:
        ctx.violation("C13:stale-memo", dict(case, where="value holding a rendered string"),
                      expected=[pre_text, len(pre_text)], got=pre_views)
    # every value's own (possibly memoised) views against a fresh copy
    for x in pool:
        v, f = views(x), views(x.copy())
        if v != f:
            ctx.violation("C13:stale-memo", dict(case, trace=trace[-6:], where="end"), expected=f, got=v)
    if check_edits:
        stale_before_edits = len(STATE["stale"])
        for kind in EDITS:
            x = rng.choice(pool)
            before = snapshot(x)
            raised = try_edit(rng, kind, x)
            after = snapshot(x)
            mech = ("C13:frozenattributes-incomplete" if kind in INCOMPLETE else
                    "C13:run-attribute-assignable" if kind.startswith("run_") else "C13:in-place-edit")
            ctx.seen(("C13", "edit", kind, before[3]))
            ctx.count("edit_attempts")
            if not raised or after != before:
                ctx.violation(mech, dict(case, edit=kind), expected="raises, value unchanged",
                              got=["raised" if raised else "no exception", before[3], after[3]])
                snaps[id(x)] = after
        # a successful in-place edit is reported above; memo slots it left stale are its
        # consequence, not a second mechanism
        del STATE["stale"][stale_before_edits:]
    if ctx.evaluations % 50 == 0:
        ctx.sample({"program_seed": seed, "steps": nsteps, "trace_tail": trace[-5:]})
    return pool


def run_case(ctx, case):
    install_invariant()
    before = len(STATE["stale"])
    if "edit" in case and "program_seed" not in case:
        x = obs.build(case["spec"])
        import random
        b = snapshot(x)
        raised = try_edit(random.Random(0), case["edit"], x)
        mech = "C13:frozenattributes-incomplete" if case["edit"] in INCOMPLETE else "C13:in-place-edit"
        ctx.seen(("C13", "edit-witness", case["edit"]))
        if not raised or snapshot(x) != b:
            ctx.violation(mech, case, expected="raises, value unchanged",
                          got=["raised" if raised else "no exception", b[3], snapshot(x)[3]])
        return
    run_program(ctx, case["program_seed"])
    for st in STATE["stale"][before:]:
        ctx.violation("C13:stale-memo-invariant", case, got=st)


def run(ctx):
    install_invariant()
    nprog = ctx.share(700 if ctx.quick else 100000)
    base = ctx.seed * 10_000_019 + ctx.shard[0] * 1_000_003
    for k in range(nprog):
        before = len(STATE["stale"])
        run_program(ctx, base + k)
        for st in STATE["stale"][before:]:
            ctx.violation("C13:stale-memo-invariant", {"program_seed": base + k}, got=st)
        del STATE["stale"][:]
        ctx.count("programs")
    ctx.notes["invariant_evaluations"] = STATE["evaluations"]
    ctx.notes["memo_slots_seen"] = STATE["slots_seen"]
    if STATE["evaluations"] == 0:
        ctx.inconclusive_because("icontract invariant on FmtStr was never evaluated")
    if STATE["slots_seen"] == 0:
        ctx.notes["memo_invariant"] = "vacuous: no memo slot was ever filled/found"
