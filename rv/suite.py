"""Run the repository's own tests and module doctests under the runtime monitors and fold what
the monitors observed into a property's verdict."""
import json
import os
import re
import subprocess
import tempfile

from . import env

DOCTEST_MODULES = ["curtsies/formatstring.py", "curtsies/formatstringarray.py", "curtsies/escseqparse.py"]


def run_monitored():
    os.makedirs(env.SCRATCH, exist_ok=True)
    fd, out = tempfile.mkstemp(dir=env.SCRATCH, suffix=".json")
    os.close(fd)
    envd = dict(os.environ, PYTHONPATH=env.VERIF + os.pathsep + env.REPO, RV_MONITOR_OUT=out,
                VERIF_REPO=env.REPO, PYTHONHASHSEED="0", TERM="xterm-256color")
    cmd = [env.PY, "-m", "pytest", "-q", "-p", "no:cacheprovider", "-p", "rv.pytest_plugin", "--timeout=600",
           "tests", "--doctest-modules"] + DOCTEST_MODULES
    try:
        r = subprocess.run(cmd, cwd=env.REPO, env=envd, stdout=subprocess.PIPE, stderr=subprocess.STDOUT,
                           text=True, timeout=900)
        try:
            data = json.load(open(out))
        except Exception:  # noqa
            data = None
        return r.returncode, r.stdout, data
    finally:
        try:
            os.unlink(out)
        except OSError:
            pass


def absorb(ctx, pid):
    rc, text, data = run_monitored()
    m = re.search(r"(\d+) passed", text or "")
    ctx.notes["repo_suite_under_monitors"] = {"pytest_exit": rc, "passed": int(m.group(1)) if m else None}
    if data is None:
        ctx.inconclusive_because("monitored run of the repository's tests produced no monitor output")
        return
    judged = {k: v for k, v in data["judged"].items() if k.startswith(pid + ":")}
    ctx.notes["repo_suite_monitor_judged"] = judged
    ctx.notes["repo_suite_monitor_out_of_domain"] = {k: v for k, v in data["out_of_domain"].items() if k.startswith(pid + ":")}
    n = sum(judged.values())
    ctx.evaluations += n
    ctx.count("judged_under_repo_tests", n)
    for h in data["hashes"].get(pid, []):
        ctx.distinct.add(h)
    for v in data["violations"]:
        if v["property"] == pid:
            ctx.violation("%s:monitor-under-repo-tests:%s" % (pid, v["op"]), {"kind": "repo-suite", "op": v["op"]},
                          None, v["detail"])
