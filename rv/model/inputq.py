"""Offline checker of Input histories (C08).

A history is a list of records in program order of the *recording* (one monotonic clock):
  {"k": "write", "data": bytes, "t": arrival-confirmed time}
  {"k": "unget", "data": bytes, "t"}
  {"k": "trig", "src": "ev"|"ts0"|"ts1", "id": int, "t0", "t1"}      (t0/t1 call/return)
  {"k": "sched", "id": int, "when": float(wall), "t": wall time of the call}
  {"k": "sigint", "t"}
  {"k": "req", "timeout": float|None, "t0", "t1", "w0", "w1" (wall), "ret": value-description,
   "flags_nonblock": bool}
ret: ("none",) | ("key", bytes) | ("paste", [bytes...]) | ("ev", src, id) | ("sched", id)
     | ("sigint",) | ("raise", type, msg)
The stream bytes and the ungot bytes come from disjoint byte alphabets (UNGET_ALPHABET), so
the flattened key bytes identify their source.  All conditions are at the property's level;
nothing is demanded about priority between sources.
"""
UNGET_ALPHABET = b"QWXYZ!@#"


def flatten_keys(ret):
    if ret[0] == "key":
        return [ret[1]]
    if ret[0] == "paste":
        return list(ret[1])
    return []


def check(history, drained, concurrent=False, slack=0.002):
    """-> list of (mechanism, detail)"""
    problems = []
    stream = b"".join(r["data"] for r in history if r["k"] == "write")
    ungot = b"".join(r["data"] for r in history if r["k"] == "unget")
    got = b"".join(b"".join(flatten_keys(r["ret"])) for r in history if r["k"] == "req")
    got_stream = bytes(b for b in got if b not in UNGET_ALPHABET)
    got_unget = bytes(b for b in got if b in UNGET_ALPHABET)
    raised = [r for r in history if r["k"] == "req" and r["ret"][0] == "raise"]
    for r in raised[:1]:
        problems.append(("raise", {"exception": r["ret"][1:], "timeout": r["timeout"]}))
    if raised:
        return problems        # everything after an exception is its consequence
    # 1. conservation and order of bytes
    if not raised:
        if drained:
            if got_stream != stream:
                problems.append(("bytes", {"what": "stream bytes lost/duplicated/reordered",
                                           "sent": len(stream), "got": len(got_stream),
                                           "first_diff": first_diff(stream, got_stream)}))
            if got_unget != ungot:
                problems.append(("bytes", {"what": "ungot bytes lost/duplicated/reordered",
                                           "sent": ungot, "got": got_unget}))
        else:
            if stream[:len(got_stream)] != got_stream or ungot[:len(got_unget)] != got_unget:
                problems.append(("bytes", {"what": "returned bytes are not a prefix of what was sent"}))
    for r in history:
        if r["k"] == "req" and r["ret"][0] == "other":
            problems.append(("foreign-value", {"returned": r["ret"][1]}))
    # 2. events: exactly once, per trigger in trigger order
    for src in ("ev", "ts0", "ts1"):
        sent = [r["id"] for r in history if r["k"] == "trig" and r["src"] == src]
        ret = [r["ret"][2] for r in history if r["k"] == "req" and r["ret"][0] == "ev" and r["ret"][1] == src]
        if (drained and ret != sent) or (not drained and sent[:len(ret)] != ret):
            problems.append(("events", {"trigger": src, "triggered": sent, "returned": ret}))
    nsig = sum(1 for r in history if r["k"] == "sigint")
    rsig = sum(1 for r in history if r["k"] == "req" and r["ret"][0] == "sigint")
    if (drained and nsig != rsig) or rsig > nsig:
        problems.append(("sigints", {"sent": nsig, "returned": rsig}))
    # 3. scheduled events: never early, time order, exactly once
    sched = {r["id"]: r for r in history if r["k"] == "sched"}
    order = []
    for i, r in enumerate(history):
        if r["k"] == "req" and r["ret"][0] == "sched":
            sid = r["ret"][1]
            order.append((i, sid))
            if sid not in sched:
                problems.append(("scheduled", {"what": "unknown scheduled event", "id": sid}))
                continue
            if r["w1"] < sched[sid]["when"] - 1e-4:
                problems.append(("scheduled", {"what": "returned before its time", "id": sid,
                                               "early_by": sched[sid]["when"] - r["w1"]}))
    ids = [sid for _, sid in order]
    if len(set(ids)) != len(ids):
        problems.append(("scheduled", {"what": "scheduled event returned twice", "ids": ids}))
    if drained:
        horizon = max([r["w1"] for r in history if r["k"] == "req"] or [0])
        due = sorted(s for s, r in sched.items() if r["when"] < horizon - 0.05)
        if sorted(set(ids) & set(due)) != due:
            problems.append(("scheduled", {"what": "due scheduled event never returned",
                                           "due": due, "returned": ids}))
    for a in range(len(order)):
        for b in range(a + 1, len(order)):
            ia, sa = order[a]
            ib, sb = order[b]
            if sa in sched and sb in sched:
                # sb returned after sa although sb is timed strictly earlier and was queued
                # before the request that returned sa
                idx_sb_queued = history.index(sched[sb])
                if sched[sb]["when"] < sched[sa]["when"] and idx_sb_queued < ia:
                    problems.append(("scheduled", {"what": "time order violated", "first": sa, "then": sb}))
    # 4. None not before the timeout (nothing scheduled during the request)
    for i, r in enumerate(history):
        if r["k"] != "req" or r["ret"][0] != "none" or r["timeout"] is None:
            continue
        pending_sched = [s for s, q in sched.items() if history.index(q) < i and s not in
                         [sid for j, sid in order if j < i]]
        if concurrent:
            pending_sched = list(sched)
        if not pending_sched and r["t1"] - r["t0"] < r["timeout"] - slack:
            problems.append(("none-early", {"timeout": r["timeout"], "elapsed": r["t1"] - r["t0"]}))
    # 8. stream not left non-blocking
    for r in history:
        if r["k"] == "req" and r.get("flags_nonblock"):
            problems.append(("nonblocking", {"after": r["ret"][0]}))
            break
    return problems


def first_diff(a, b):
    n = min(len(a), len(b))
    for i in range(n):
        if a[i] != b[i]:
            return {"offset": i, "sent": a[max(0, i - 4):i + 6], "got": b[max(0, i - 4):i + 6]}
    return {"offset": n, "sent_len": len(a), "got_len": len(b)}


class Deliverable:
    """What the sequential harness knows to be deliverable (stepped alongside)."""

    def __init__(self):
        self.stream = 0      # stream bytes arrived and not yet returned
        self.unget = 0
        self.events = 0      # plain + threadsafe events queued and not yet returned
        self.sched = {}      # id -> when
        self.sigints = 0

    def anything(self, now_wall):
        return (self.stream > 0 or self.unget > 0 or self.events > 0 or self.sigints > 0 or
                any(w < now_wall - 0.001 for w in self.sched.values()))

    def nothing_at_all(self):
        return not (self.stream or self.unget or self.events or self.sched or self.sigints)

    def account(self, ret):
        if ret[0] in ("key", "paste"):
            data = b"".join(flatten_keys(ret))
            u = sum(1 for b in data if b in UNGET_ALPHABET)
            self.unget -= u
            self.stream -= len(data) - u
        elif ret[0] == "ev":
            self.events -= 1
        elif ret[0] == "sched":
            self.sched.pop(ret[1], None)
        elif ret[0] == "sigint":
            self.sigints -= 1
