"""Reference terminal: xterm semantics for exactly what curtsies and blessed emit under
TERM=xterm-256color.  Cells are (char, fg, bg, styles) as in sgr.py.

Implemented: printable single-column characters with the pending-wrap column, LF (scroll at
the bottom; the main buffer feeds a scrollback list), CR, BS, CUP/HVP (clamped), CHA,
CUU/CUD/CUF/CUB, VPA, EL 0/1/2 and ED 0/1/2 (background-colour erase), SGR, DECSC/DECRC
(position, attributes, pending flag), DECTCEM (?25), ?12, alternate screen ?1049 (saves and
restores the cursor, separate buffer, no scrollback), window ops `t` (ignored, counted),
DSR 6 (reply injected through `reply`).  Anything else lands in `unknown`; a history with
unknown sequences is inconclusive - the model cannot vouch for a screen it could not
interpret.
"""
import re

from . import sgr
from wcwidth import wcwidth as _w

BLANK = (" ", None, None, frozenset())


class Term:
    CSI = re.compile(r"\x1b\[([?>]?)([0-9;]*)([ -/]*)([@-~])")
    PARTIAL = re.compile(r"\x1b(\[[?>]?[0-9;]*[ -/]*)?\Z")

    def __init__(self, rows, cols, reply=None):
        self.rows, self.cols = rows, cols
        self.main = [[BLANK] * cols for _ in range(rows)]
        self.alt = None
        self.screen = self.main
        self.scrollback = []
        self.y = self.x = 0
        self.pending = False
        self.attr = sgr.DEFAULT
        self.saved = None
        self.saved_main = None
        self.cursor_visible = True
        self.reply = reply
        self.unknown = []
        self.scrolls = 0
        self.window_ops = 0
        self.buf = ""

    # ---- observation helpers
    @property
    def in_alt(self):
        return self.screen is not self.main

    def all_main_lines(self):
        """scrollback + main screen as cell rows"""
        return self.scrollback + self.main

    def text(self, rows=None):
        return ["".join(c[0] for c in r) for r in (self.screen if rows is None else rows)]

    # ---- harness-side manipulation
    def resize(self, rows, cols):
        for name in ("main", "alt"):
            old = getattr(self, name)
            if old is None:
                continue
            new = [[BLANK] * cols for _ in range(rows)]
            for y in range(min(rows, len(old))):
                for x in range(min(cols, len(old[y]))):
                    new[y][x] = old[y][x]
            if self.screen is old:
                self.screen = new
            setattr(self, name, new)
        self.rows, self.cols = rows, cols
        self.y = min(self.y, rows - 1)
        self.x = min(self.x, cols - 1)
        self.pending = False

    def junk(self, rng, density=0.5):
        """overwrite the active screen with random characters/colours, cursor anywhere"""
        for y in range(self.rows):
            for x in range(self.cols):
                if rng.random() < density:
                    self.screen[y][x] = (rng.choice("#@%&x"), rng.choice([None, 31, 36]),
                                         rng.choice([None, 44, 41]),
                                         frozenset(rng.sample(["bold", "underline", "invert"], rng.randint(0, 2))))
        self.y = rng.randrange(self.rows)
        self.x = rng.randrange(self.cols)
        self.pending = rng.random() < .2 and self.x == self.cols - 1

    # ---- interpreter
    def _scroll_up(self):
        top = self.screen.pop(0)
        if self.screen is self.main:
            self.scrollback.append(top)
        self.screen.append([BLANK] * self.cols)
        self.scrolls += 1

    def _lf(self):
        if self.y == self.rows - 1:
            self._scroll_up()
        else:
            self.y += 1

    def _put(self, ch):
        if _w(ch) != 1:
            self.unknown.append(("non-single-column character", ch))
            return
        if self.pending:
            self.x = 0
            self._lf()
            self.pending = False
        self.screen[self.y][self.x] = (ch,) + self.attr
        if self.x == self.cols - 1:
            self.pending = True
        else:
            self.x += 1

    def feed(self, s):
        s = self.buf + s
        self.buf = ""
        i, n = 0, len(s)
        while i < n:
            c = s[i]
            if c == "\x1b":
                if self.PARTIAL.match(s, i):
                    self.buf = s[i:]
                    return
                if s[i + 1] == "[":
                    m = self.CSI.match(s, i)
                    if not m:
                        self.unknown.append(("bad-csi", s[i:i + 10]))
                        i += 2
                        continue
                    self._csi(m.group(1), m.group(2), m.group(3), m.group(4))
                    i = m.end()
                    continue
                if s[i + 1] == "7":
                    self.saved = (self.y, self.x, self.pending, self.attr)
                elif s[i + 1] == "8":
                    if self.saved:
                        self.y, self.x, self.pending, self.attr = self.saved
                    else:
                        self.y = self.x = 0
                        self.pending = False
                    self.y = min(self.y, self.rows - 1)
                    self.x = min(self.x, self.cols - 1)
                else:
                    self.unknown.append(("escape", s[i:i + 2]))
                i += 2
                continue
            if c == "\n":
                self._lf()
                self.pending = False
            elif c == "\r":
                self.x = 0
                self.pending = False
            elif c == "\b":
                if self.x > 0:
                    self.x -= 1
                self.pending = False
            elif ord(c) < 32 or c == "\x7f" or 0x80 <= ord(c) < 0xA0:
                self.unknown.append(("control", c))
            else:
                self._put(c)
            i += 1

    def _erase_cell(self):
        return (" ", None, self.attr[1], frozenset()) if self.attr[1] else BLANK

    def _csi(self, priv, params, inter, fin):
        ps = [int(p) if p else None for p in params.split(";")] if params else [None]

        def p(k, d):
            return ps[k] if k < len(ps) and ps[k] not in (None, 0) else d
        if inter:
            self.unknown.append(("csi-intermediate", params, inter, fin))
            return
        if priv == "?" and fin in "hl":
            on = fin == "h"
            for q in ps:
                if q == 25:
                    self.cursor_visible = on
                elif q == 12:
                    pass
                elif q == 1049:
                    if on and not self.in_alt:
                        self.saved_main = (self.y, self.x, self.pending, self.attr)
                        self.alt = [[BLANK] * self.cols for _ in range(self.rows)]
                        self.screen = self.alt
                    elif not on and self.in_alt:
                        self.screen = self.main
                        self.alt = None
                        self.y, self.x, self.pending, self.attr = self.saved_main
                        self.y = min(self.y, self.rows - 1)
                        self.x = min(self.x, self.cols - 1)
                else:
                    self.unknown.append(("mode", q, fin))
            return
        if priv:
            self.unknown.append(("private", priv, params, fin))
            return
        if fin == "m":
            self.attr = sgr.apply(self.attr, params, self.unknown)
        elif fin in "Hf":
            self.y = min(p(0, 1), self.rows) - 1
            self.x = min(p(1, 1), self.cols) - 1
            self.pending = False
        elif fin == "G":
            self.x = min(p(0, 1), self.cols) - 1
            self.pending = False
        elif fin == "d":
            self.y = min(p(0, 1), self.rows) - 1
            self.pending = False
        elif fin == "K":
            mode = ps[0] or 0
            blank = self._erase_cell()
            r = self.screen[self.y]
            rng = range(self.x, self.cols) if mode == 0 else range(0, self.x + 1) if mode == 1 \
                else range(self.cols) if mode == 2 else ()
            if mode > 2:
                self.unknown.append(("EL", mode))
            for x in rng:
                r[x] = blank
        elif fin == "J":
            mode = ps[0] or 0
            blank = self._erase_cell()
            if mode == 0:
                for x in range(self.x, self.cols):
                    self.screen[self.y][x] = blank
                for y in range(self.y + 1, self.rows):
                    self.screen[y] = [blank] * self.cols
            elif mode == 1:
                for x in range(0, self.x + 1):
                    self.screen[self.y][x] = blank
                for y in range(0, self.y):
                    self.screen[y] = [blank] * self.cols
            elif mode == 2:
                for y in range(self.rows):
                    self.screen[y] = [blank] * self.cols
            else:
                self.unknown.append(("ED", mode))
        elif fin == "n":
            if ps[0] == 6:
                if self.reply:
                    self.reply("\x1b[%d;%dR" % (self.y + 1, self.x + 1))
            else:
                self.unknown.append(("DSR", params))
        elif fin == "t":
            self.window_ops += 1
        elif fin == "A":
            self.y = max(0, self.y - p(0, 1))
            self.pending = False
        elif fin == "B":
            self.y = min(self.rows - 1, self.y + p(0, 1))
            self.pending = False
        elif fin == "C":
            self.x = min(self.cols - 1, self.x + p(0, 1))
            self.pending = False
        elif fin == "D":
            self.x = max(0, self.x - p(0, 1))
            self.pending = False
        else:
            self.unknown.append(("csi", params, fin))
