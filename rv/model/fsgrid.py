"""Cell-grid reference model of an FSArray, stepped alongside the real object (C04).

rows[r] is the list of cells *stored* in row r (at most W); the displayed row is the stored
cells followed by blank, unformatted cells up to W.
"""
BLANK = (" ", None, None, frozenset())

OK, ERROR, DONTCARE, NOOP = "ok", "error", "dontcare", "noop"


class Grid:
    def __init__(self, h, w):
        self.W = w
        self.rows = [[] for _ in range(h)]

    def display_row(self, r):
        row = self.rows[r]
        return row + [BLANK] * (self.W - len(row))

    def display(self):
        return [self.display_row(r) for r in range(len(self.rows))]

    def region(self, r0, r1, c0, c1):
        return [self.display_row(r)[c0:c1] for r in range(r0, min(r1, len(self.rows)))]

    def assign(self, r0, r1, c0, c1, block):
        """Apply a[r0:r1, c0:c1] = block (block: list of cell lists).  Returns the expected
        outcome class; on OK the grid is updated, on ERROR only the growth has happened."""
        W = self.W
        while len(self.rows) < r1:
            self.rows.append([])
        if r1 - r0 == 0 or c1 - c0 == 0:
            return NOOP
        if len(block) != r1 - r0:
            return ERROR
        new_rows = []
        outcome = OK
        for r, v in zip(range(r0, r1), block):
            row = self.rows[r]
            if len(row) > c1:
                if len(v) > c1 - c0:
                    return ERROR          # would reach into existing content beyond the region
                new = row[:c0] + v + [BLANK] * (c1 - c0 - len(v)) + row[c1:]
            else:
                pad = [BLANK] * (c0 - len(row))
                new = row[:c0] + pad + v
                if len(new) > W:
                    return ERROR          # would reach past the array's width
                if len(v) > c1 - c0:
                    outcome = DONTCARE    # longer than the region, lands on never-written cells
            new_rows.append(new)
        if outcome == OK:
            for r, new in zip(range(r0, r1), new_rows):
                self.rows[r] = new
        return outcome
