"""Column model for C10/C11: widths come from the pure-Python `wcwidth` package (independent
of the cwcwidth C extension curtsies uses); the alphabet is restricted to characters on
which both agree (checked at start-up by `agreed`)."""
from wcwidth import wcwidth as py_wcwidth

NARROW = ["a", "b"]
WIDE = ["一", "Ｅ"]
ZERO = ["́"]
SYMBOLS = NARROW + WIDE + ZERO


def agreed(chars):
    from cwcwidth import wcwidth as c_wcwidth
    return [c for c in chars if py_wcwidth(c) == c_wcwidth(c) and py_wcwidth(c) in (0, 1, 2)]


def w(ch):
    return py_wcwidth(ch)


def width(cells):
    return sum(w(c[0]) for c in cells)


def items(cells):
    """-> (leading zero-width cells, [(start_col, end_col, cell, [follower cells])...])"""
    lead, out, col = [], [], 0
    for c in cells:
        cw = w(c[0])
        if cw == 0:
            (out[-1][3] if out else lead).append(c)
        else:
            out.append((col, col + cw, c, []))
            col += cw
    return lead, out


def expected_slice(cells, a, b):
    """-> list of (cell, required followers or None, allowed followers).  Zero-width
    characters following a character that lies wholly inside [a, b) are displayed in that
    character's column(s), hence inside the range, and must be kept - also when that character
    ends exactly at b; those of a character cut by an edge are don't-care (None)."""
    lead, its = items(cells)
    E = []
    for cs, ce, cell, fol in its:
        if ce <= a or cs >= b:
            continue
        if cs >= a and ce <= b:
            E.append((cell, fol, fol))       # a combining character is displayed in its base character's column
        else:
            sp = (" ",) + cell[1:]
            for _ in range(min(ce, b) - max(cs, a)):
                E.append((sp, None, fol))
    return E


def group(cells):
    """result cells -> (leading zero-width, [(cell, followers)])"""
    lead, out = [], []
    for c in cells:
        if w(c[0]) == 0:
            (out[-1][1] if out else lead).append(c)
        else:
            out.append((c, []))
    return lead, out


def reference_wrap(cells, columns):
    """Greedy wrap -> list of lines, each a list of non-zero-width cells (padding included)."""
    lines, cur, cw = [], [], 0
    for c in cells:
        k = w(c[0])
        if k == 0:
            continue
        if cw + k > columns:
            cur.append((" ",) + c[1:])
            lines.append(cur)
            cur, cw = [], 0
        cur.append(c)
        cw += k
        if cw == columns:
            lines.append(cur)
            cur, cw = [], 0
    if cur:
        lines.append(cur)
    return lines
