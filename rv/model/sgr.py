"""Independent SGR interpreter (ECMA-48 8.3.117 subset), written from the standard.

A display cell is (char, fg, bg, styles): fg in 30..37 or None, bg in 40..47 or None,
styles a frozenset of names.  Root of trust for C01/C05/C14 observations.
"""
import re

STYLE_ON = {1: "bold", 2: "dark", 3: "italic", 4: "underline", 5: "blink", 7: "invert"}
STYLE_OFF = {22: ("bold", "dark"), 23: ("italic",), 24: ("underline",), 25: ("blink",),
             27: ("invert",)}
DEFAULT = (None, None, frozenset())
_SGR = re.compile(r"\x1b\[([0-9;]*)m")


def apply(state, params, unknown=None):
    """Apply one SGR sequence's parameter string to a graphic state."""
    fg, bg, st = state
    for p in (params.split(";") if params else ["0"]):
        n = int(p) if p else 0
        if n == 0:
            fg, bg, st = None, None, frozenset()
        elif 30 <= n <= 37:
            fg = n
        elif 40 <= n <= 47:
            bg = n
        elif n == 39:
            fg = None
        elif n == 49:
            bg = None
        elif n in STYLE_ON:
            st = st | {STYLE_ON[n]}
        elif n in STYLE_OFF:
            st = st - set(STYLE_OFF[n])
        elif unknown is not None:
            unknown.append(("sgr-parameter", n))
    return (fg, bg, st)


def interpret(s, state=DEFAULT):
    """Return (cells, final_state, other) for a string written to a terminal whose
    graphic state is `state`.  `other` lists everything that is neither text nor a
    well-formed supported SGR sequence (ESC not starting one, 8-bit CSI, unknown
    parameters): the caller decides whether that is allowed."""
    cells = []
    other = []
    i, n = 0, len(s)
    while i < n:
        c = s[i]
        if c == "\x1b":
            m = _SGR.match(s, i)
            if m is None:
                other.append(("escape", i, s[i:i + 6]))
                cells.append((c,) + state)
                i += 1
                continue
            state = apply(state, m.group(1), other)
            i = m.end()
        else:
            if c == "\x9b":
                other.append(("c1-csi", i, s[i:i + 6]))
            cells.append((c,) + state)
            i += 1
    return cells, state, other
