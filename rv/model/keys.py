"""Property-level facts the key decoder must satisfy (C03/C20), computed from the live
tables and Python's codecs - not a second decoder.

Unit     = a table sequence or one validly encoded character.
T_prefix = proper prefix of some table sequence (prefix set built here, independently of
           curtsies.events.KEYMAP_PREFIXES);  T_full = is a table sequence.
C_prefix = Python's incremental decoder accepts the bytes as an incomplete character;
C_full   = the bytes decode to exactly one character.
Under utf-8 the single-byte 8-bit Meta keys are units only as the last byte of a read.
"""
import codecs


class Facts:
    def __init__(self, encoding):
        from curtsies import events
        self.events = events
        self.encoding = encoding
        self.curtsies = dict(events.CURTSIES_NAMES)
        self.curses = dict(events.CURSES_NAMES)
        self.table = set(self.curtsies) | set(self.curses)
        self.prefixes = {k[:i] for k in self.table for i in range(1, len(k))}
        self.maxlen = max(len(k) for k in self.table)
        self.utf8 = codecs.lookup(encoding).name == "utf-8"
        self.meta = {bytes([b]) for b in range(0x80, 0x100)} if self.utf8 else set()
        self._inc = codecs.getincrementaldecoder(encoding)

    def T_full(self, seq):
        return seq in self.table

    def T_prefix(self, seq):
        return seq in self.prefixes

    def C_full(self, seq):
        try:
            return len(seq.decode(self.encoding)) == 1
        except UnicodeDecodeError:
            return False

    def C_prefix(self, seq):
        if not seq:
            return False
        d = self._inc()
        try:
            out = d.decode(seq, final=False)
        except UnicodeDecodeError:
            return False
        if out:
            return False
        try:
            d.decode(b"", final=True)
            return False          # nothing pending
        except UnicodeDecodeError:
            return True

    def unit(self, seq, last):
        """is seq one complete unit (meta bytes under utf-8 only when `last`)"""
        if seq in self.meta:
            return last
        return seq in self.table or self.C_full(seq)

    def unit_prefix(self, seq):
        return seq in self.prefixes or self.C_prefix(seq)

    def valid_nf(self, seq):
        """seq is a prefix of some valid input with more bytes following in the same read"""
        n = len(seq)
        ok = [False] * (n + 1)
        ok[0] = True
        for i in range(n):
            if not ok[i]:
                continue
            for j in range(i + 1, min(n, i + max(self.maxlen, 4)) + 1):
                if self.unit(seq[i:j], last=False):
                    ok[j] = True
            if self.unit_prefix(seq[i:]) or self.unit(seq[i:], last=False):
                return True
        return ok[n]

    def valid_f(self, seq):
        """seq is a complete valid input that ends a read"""
        n = len(seq)
        ok = [False] * (n + 1)
        ok[0] = True
        for i in range(n):
            if not ok[i]:
                continue
            for j in range(i + 1, min(n, i + max(self.maxlen, 4)) + 1):
                if self.unit(seq[i:j], last=(j == n)):
                    ok[j] = True
        return ok[n]

    def name(self, seq, mode):
        """expected key for a complete unit under a naming mode ('curtsies'|'curses'|'bytes');
        returns a set of acceptable values"""
        if mode == "bytes":
            return {seq}
        if mode == "curtsies":
            if seq in self.curtsies:
                return {self.curtsies[seq]}
            if seq in self.curses:      # table nesting is checked separately (C20)
                return {self.curses[seq], seq.decode(self.encoding, "replace")}
            return {seq.decode(self.encoding)}
        if seq in self.curses:
            return {self.curses[seq]}
        try:
            return {seq.decode(self.encoding)}
        except UnicodeDecodeError:
            if len(seq) == 1:
                return {"x%02X" % seq[0]}
            return set()


class Incomplete(Exception):
    pass


def drive(get_key, chunks, encoding, keynames):
    """Feed bytes to events.get_key exactly as Input.find_key does: one byte at a time,
    full= nothing more buffered in the current read.  chunks = list of reads (bytes)."""
    keys = []
    for data in chunks:
        buf = [data[i:i + 1] for i in range(len(data))]
        while buf:
            cur = []
            e = None
            while buf:
                cur.append(buf.pop(0))
                e = get_key(cur, encoding, keynames=keynames, full=len(buf) == 0)
                if e is not None:
                    break
            if e is None:
                raise Incomplete(b"".join(cur))
            keys.append(e)
    return keys


def drive_partial(get_key, data, encoding, keynames):
    """One read as Input takes it since it keeps the start of a keypress whose other bytes have
    not arrived: -> (keys, leftover); leftover is to be put in front of the next read."""
    keys = []
    buf = [data[i:i + 1] for i in range(len(data))]
    while buf:
        cur = []
        e = None
        while buf:
            cur.append(buf.pop(0))
            e = get_key(cur, encoding, keynames=keynames, full=len(buf) == 0)
            if e is not None:
                break
        if e is None:
            return keys, b"".join(cur)
        keys.append(e)
    return keys, b""
