#!/opt/veriftools/pyvenv/bin/python
"""Validate MANIFEST.json and every evidence file against the schemas (tooling venv)."""
import json, sys, glob, jsonschema
ok = True
ms = json.load(open('/root/.vp/MANIFEST.schema.json'))
es = json.load(open('/root/.vp/EVIDENCE.schema.json'))
try:
    jsonschema.validate(json.load(open('/verif/MANIFEST.json')), ms); print('MANIFEST ok')
except Exception as e:
    ok = False; print('MANIFEST', str(e)[:500])
for p in sorted(glob.glob('/verif/evidence/C*.json')):
    try:
        jsonschema.validate(json.load(open(p)), es); print(p, 'ok')
    except Exception as e:
        ok = False; print(p, str(e)[:500])
sys.exit(0 if ok else 1)
